#!/bin/bash
# usage: try.sh <seeded-id> <property>...   apply /verif/seeded/<id>/patch.diff to /repo, run the quick checks, restore /repo
id=$1; shift
cd /repo; [ -z "$(git status --porcelain -- src)" ] || { echo "/repo dirty"; exit 2; }
git apply /verif/seeded/$id/patch.diff || { echo "$id: patch does not apply"; exit 2; }
trap 'cd /repo && git checkout -q -- .' EXIT
cd /verif
for p in "$@"; do
  out=$(./run $p ${TIER:-quick} 2>&1); code=$?
  echo "$id $p exit=$code violations=$(echo "$out" | grep -c '^VIOLATION') :: $(echo "$out" | grep -A1 -m1 '^VIOLATION' | tail -1 | cut -c1-300)"
  [ $code -ge 2 ] && echo "$out" | tail -5
  rp=$(echo "$out" | grep -m1 '^VIOLATION' | sed 's/.*replay=//')
  if [ -n "$rp" ]; then ./run replay $rp >/dev/null 2>&1; echo "   replay of $rp: exit=$?"; fi
done
