#!/bin/bash
# applies every seeded change to /repo in turn, runs the quick check of its property (plus the extra properties
# named in tools/seeded_extra.txt), restores /repo, and writes seeded/RESULTS.md
# SEEDED_DONE=<file>: lines of an interrupted run (same machinery for those properties) are taken over, not re-run
cd /verif
{
echo "# Seeded changes vs quick checks (current machinery)"
echo
echo "Produced by tools/seeded_all.sh. One line per seeded change: exit code of the quick check of its property (1 = detected)."
echo
echo '```'
for d in seeded/C*/; do
  id=$(basename $d); prop=${id%%-*}
  if [ -n "${SEEDED_DONE:-}" ] && grep -q "^$id: .*\(DETECTED\|exit0\)" "$SEEDED_DONE"; then grep "^$id: " "$SEEDED_DONE" | head -1; continue; fi
  extra=$(grep "^$id " tools/seeded_extra.txt 2>/dev/null | cut -d' ' -f2-)
  cd /repo; if [ -n "$(git status --porcelain -- src)" ]; then echo "$id: /repo dirty"; cd /verif; continue; fi
  if ! git apply /verif/$d/patch.diff 2>/dev/null; then echo "$id: patch does not apply"; cd /verif; continue; fi
  cd /verif
  line="$id:"
  for p in $prop $extra; do
    out=$(./run $p quick 2>&1); code=$?
    line="$line $p=$( [ $code = 1 ] && echo DETECTED || echo "exit$code" )"
  done
  echo "$line"
  cd /repo; git checkout -q -- .; cd /verif
done
echo '```'
} > seeded/RESULTS.md.tmp
mv seeded/RESULTS.md.tmp seeded/RESULTS.md
