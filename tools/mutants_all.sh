#!/bin/bash
# runs every mutant against its property's quick check and writes mutants/RESULTS.md
cd /verif
{
echo "# Own mutants vs quick checks"
echo
echo "Produced by tools/mutants_all.sh (tools/mutant_run.sh per patch: apply to /repo, repository suite must stay 94/94, the property's quick check must exit 1 with a VIOLATION whose replay exits 1, /repo restored)."
echo
echo '```'
for m in mutants/*.patch; do tools/mutant_run.sh $m 2>&1 | tail -1 | cut -c1-260; done
echo '```'
} > mutants/RESULTS.md.tmp
mv mutants/RESULTS.md.tmp mutants/RESULTS.md
