#!/usr/bin/env python3
"""Regenerates /verif/MANIFEST.json from the table below (one entry per claimed property)."""
import json, os
HERE = os.path.dirname(os.path.dirname(os.path.abspath(__file__)))
props = [json.loads(l)["id"] for l in open(os.path.join(HERE, "properties.jsonl"))]

BFS_NOTE = ("trusted base: the reference model in mc/src/model (RFC 9535 transcription, validated against the RFC's worked examples at every start-up), "
            "the address map that identifies returned references, serde_json with preserve_order; bounds: the document universes and segment alphabets "
            "listed in the evidence file, nodelists longer than Lmax are checked but not expanded")

CHECKS = {
 "C01": dict(
   text="Bounded exhaustive exploration of the product of the real evaluator and an RFC 9535 reference model: for every document of the universes, "
        "breadth-first search over the evaluator's observable states (tag + nodelist with paths), one real js_path_process run per (state, segment) edge, "
        "multiset equality of selected locations with the model and address identity of every returned reference; plus the construct x context matrix (every selector of the per-document alphabet "
        "in 34 syntactic positions), documents deeper than a parser accepts (assembled in code) and a size ladder around powers of two, all against the model. Exhaustive within the stated bounds, nothing sampled.",
   design="4.C01 / 2", note=BFS_NOTE, technique="explicit-state BFS of the evaluator's nodelist transition system against a reference model (product exploration, every edge executed on the implementation)"),
 "C02": dict(
   text="Same product exploration as C01 with the order relation on every edge: child segments must reproduce the model sequence exactly (input-node-major, selector order, "
        "index / reverse order, member order, duplicates kept); descendant segments must visit nodes in the document pre-order (RFC 2.5.2.2 partial order with object members in the document's own member order, as the property states) with per-visited-node runs contiguous.",
   design="4.C02 / 2", note=BFS_NOTE, technique="explicit-state BFS of the nodelist transition system with an order oracle accepting exactly the sequences the property permits"),
 "C03": dict(
   text="Same product exploration over documents whose member names need escaping and over every spelling route (single-quoted, double-quoted, shorthand, wildcard, descendant, "
        "slice, negative index, filter): every reported path must equal the RFC 2.7 normalized path of the node identified by address, equal paths iff equal nodes, and each "
        "reported path re-run as a query must return exactly that node with that path. Plus call histories: every sequence of up to two (thorough: three) calls over six entry points x "
        "valid and rejected query strings on a fresh thread, followed by probe queries whose reported paths are checked against the node locations.",
   design="4.C03 / 2", note=BFS_NOTE, technique="explicit-state BFS of the nodelist transition system with a normalized-path oracle and a re-query round trip per reported path"),
 "C04": dict(
   text="Exhaustive table: every ordered pair of values of a fixed universe (all JSON types, integer/float spellings of equal numbers, strings that order differently by code point and UTF-16, "
        "structurally equal containers with different number representations or member order, and 'nothing') x six operators x operand forms (member, bracket name, index, root query, "
        "literal on either side, value()/length()/count() results), each cell decided by a real filter query and compared with the RFC 2.3.5.2.2 comparison of the reference model; "
        "the number universe includes neighbouring doubles (one ulp apart) around 1 and 2^52 in integer and float representation; plus the algebraic laws (!= vs ==, <= vs < or ==, mirror, trichotomy) checked on the observed truth values independently of the model.",
   design="4.C04", note="trusted base: the comparison function of the reference model (validated against the RFC 9535 2.3.5.3 comparison table at start-up); universe restricted to finite numbers within +-(2^53-1)",
   technique="exhaustive enumeration of the finite comparison table (all value pairs x operators x operand forms) against a reference model, plus model-independent algebraic laws"),
 "C11": dict(
   text="Exhaustive cube: every (start, end, step) over absent / every integer of a range / the I-JSON extremes, times every array length up to a bound, in several contexts (root, below a name, "
        "below a wildcard, under a descendant segment, non-array targets, nodelists that mix arrays with non-arrays below a wildcard and under a descendant segment - alone and inside a union "
        "with a name selector in either order -, index segments of singular queries in comparisons, slices applied to the current node of a filter "
        "and consumed by count() or a following segment), through the parser and through programmatically built queries; expected index sequence from the RFC 2.3.4.2.2 "
        "pseudo-code transcribed with 128-bit arithmetic; node identity, order and path compared; per-case wall-clock horizon for termination.",
   design="4.C11", note="trusted base: slice_indices in the reference model (literal transcription of the RFC pseudo-code, checked against the RFC slice examples at start-up); bounds: parameter range and array lengths in the evidence file",
   technique="exhaustive enumeration of the slice/index parameter cube x array lengths x contexts against the RFC pseudo-code"),
 "C14": dict(
   text="Exhaustive table: every first argument of a value universe x every second argument (all arrays up to a length over an element set including nested and empty containers, non-arrays, "
        "missing) x the five functions x argument forms (@, @.x, bracketed with blanks, negated, literal, long lists, and aliased arguments: both arguments one node, an element of its own list, an absolute path to a member of "
        "child k for every k), decided by real filter queries and compared with the set-membership definition in the property.",
   design="4.C14", note="trusted base: the 20-line set-semantics oracle in mc/src/checks/ext.rs; element equality only between values where structural equality and RFC == coincide",
   technique="exhaustive enumeration of the finite argument table of the five extension functions against a set-semantics oracle"),
 "C06": dict(
   text="Exhaustive language enumeration: every token string up to n tokens after `$`, every character string up to m characters over a raw alphabet, every sentence of a generative "
        "encoding of the RFC grammar (all comparable pairs x operators, functions with every argument kind, Boolean structure, segment sequences) with a blank of each kind at every "
        "boundary, one-position families (class-boundary characters, every escape, upper/lower/mixed hex, all surrogate pairings, integer and number shapes, every sequence of up to three (four) escape-level tokens inside a string in six positions, every slice of a cube and every small index inside function "
        "arguments) and every single-token edit; "
        "each string is classified by an independent RFC recogniser; every string it calls valid must be accepted by the real parser; nesting ladders and the generated sentence set are additionally "
        "parsed as the FIRST parse of a fresh process each (nothing an earlier parse left behind can help).",
   design="4.C06/C07", note="trusted base: the hand-written recogniser mc/src/model/parse.rs (ABNF + I-JSON range + function well-typedness), cross-checked at start-up against the sentence generator and the RFC's examples; unknown function names and out-of-range integer literals are don't-care",
   technique="exhaustive enumeration of bounded string spaces (all token strings <= n, all character strings <= m, all grammar sentences up to a size, all single-token edits) classified by a reference recogniser"),
 "C07": dict(
   text="Same exhaustive enumeration as C06, opposite direction: every enumerated string the RFC recogniser calls invalid (in particular every near-miss: a blank at every illegal position, "
        "single-token deletions / insertions / substitutions / transpositions of valid sentences, malformed escapes, leading zeros, -0, out-of-range integers, ill-typed or mis-aritied "
        "function calls, non-singular queries in comparisons) must be rejected by the real parser.",
   design="4.C06/C07", note="trusted base: as C06",
   technique="exhaustive enumeration of bounded string spaces and of all single-token edits of valid sentences, classified by a reference recogniser"),
 "C08": dict(
   text="Every string of the C06/C07 spaces is parsed under catch_unwind with overflow checks on, and every accepted string is evaluated on a 12-document panel through all public entry "
        "points and must return Ok; the integer cube (all triples over 0, +-1, +-(2^53-1), +-(2^53-2), +-2^53, i64 limits, beyond i64) goes through the parser and, inside the I-JSON range, "
        "through programmatically built queries; a depth ladder runs each nesting construct (parentheses, negations, nested filters, function calls, segments, ||/&& chains, unions, "
        "document depth under descendant segments) at depths 8..32768 in isolated subprocesses with an 8 MiB stack and a wall-clock horizon; size ladders (wide arrays / objects, long names / strings, "
        "wide equality) - in the thorough tier also with a debug build of jsonpath-rust; ladders for nesting shapes whose cost must stay polynomial (depth 8..32, 15 s horizon); regular-expression stress "
        "patterns and nesting ladders over every depth 1..300; functions over lists (every size 0..34, 63..65, 100 x 9 element mixes x arrangements x 14 queries); queries and name selectors built directly from the public model types (ill-typed function expressions included).",
   design="4.C08", note="bounds: the enumerated spaces, the cube values, the ladder rungs; asymptotic claims are out of reach; stack exhaustion findings are identified by (construct, first failing rung)",
   technique="exhaustive enumeration of bounded input spaces under panic / abort / timeout observation (subprocess isolation for stack exhaustion)"),
 "C05": dict(
   text="Part 1, exhaustive: every formula over three atoms with up to k binary connectives and every placement of `!`, in three renderings (minimal parentheses so that precedence "
        "must do the work, fully parenthesised, with blanks), decided for every valuation of the members (absent / null / false / 0 / \"\" / [] / {} / 1) by one packed filter query, "
        "for four atom assignments (existence, comparison, function test, bracket / root forms) and both container kinds; two oracles: the reference model and, independently, Boolean "
        "algebra over the kept-sets the implementation itself reports for the atoms. Part 2: the scoping family (filters nested in filter queries, `$` inside nested filters, `@` at "
        "several levels) over a compositional item universe. Part 3: every `$`-dependent scoping query parsed once and kept while the document held by one variable runs through every ordered pair of root "
        "values (replaced as a whole, or updated in place).",
   design="4.C05", note="trusted base: reference model; the Boolean-algebra oracle needs none; bounds: k, the valuation universe, the scoping query list",
   technique="exhaustive enumeration of Boolean formulas x valuations (truth-table checking) against a reference model and a model-independent compositional oracle"),
 "C10": dict(
   text="Regex: every pattern string of AST size <= s over literals, dot, classes, escaped dot, anchors, groups, alternation and the three quantifiers, plus invalid patterns and patterns "
        "with quotes / backslashes, x every subject over {a,b} up to length 3 plus special and non-string subjects, x match/search x pattern supplied from the document, as a single-quoted "
        "literal, and negated as a double-quoted literal. Values: length/count/value over the whole C04 value universe (and nothing) in comparisons against literals and each other, "
        "nodelists of size 0..3 from member, wildcard, descendant, empty slice and filter queries; arguments reached through every kind of singular-query segment (names, bracketed names, "
        "positive, negative and out-of-range indices, nested, rooted at `$`) in every parameter position. Oracle: reference model, whose matcher is first cross-checked against the regex crate on the same universe.",
   design="4.C10", note="trusted base: regex_ref (backtracking matcher, ~250 lines) validated against the regex crate at start-up; `^`/`$` are assertions; subjects have no line terminators",
   technique="exhaustive enumeration of a bounded regular-expression language x subject strings, and of function-argument tables, against a reference model"),
 "C09": dict(
   text="Node sweep: for every document of the universes (odd member names incl. / ~ quotes backslashes control characters, pointer look-alikes such as '0' vs 0, the exhaustive small "
        "universe, the panel) and every node, reference(normalized path) must return that very node (by address) and reference_mut must give a handle whose write changes exactly "
        "that node (whole-document comparison against the model's set) for each of five written values; every neighbouring location that does not exist must yield None and leave the "
        "document untouched. Update histories: breadth-first search over the documents reachable by sequences of writes through the paths of one initial query, de-duplicated on the "
        "document, each write executed on the implementation and on the reference model (including paths that dangle after an earlier write). One variable, successive documents: a look-up that misses, the variable then receives the document after a location-creating write, every node must resolve. Feed-back: the (node, path) pairs reported by wildcard and filter routes over array elements and object members are compared "
        "position by position with the model - a correct path must carry exactly its node.",
   design="4.C09", note="trusted base: normpath and the 15-line model_set; bounds: document universes, written values, history depth",
   technique="exhaustive node sweep plus explicit-state BFS over update histories, every transition executed on the implementation and a reference model"),
 "C12": dict(
   text="Three explorations. (1) Entry-point agreement on the generated query set x document panel: query, query_only_path, query_with_path, a query parsed once (run twice, and cloned) "
        "agree position by position and leave the document unchanged. (2) Histories: every ordered pair of a 49-operation alphabet (chosen to collide on anything a cache could key on: same pattern with match and search, rejected queries, escaped names of equal length) "
        "in its own fresh process, and every window of length w - the windows that start with the same operation run in lexicographic order in one fresh process -, each result compared with the same operation run first in a fresh process. (3) Schedules: "
        "stateless depth-first exploration of every interleaving with at most k preemptions (iterated 0..k) of two or three real threads sharing one parsed query and one document, "
        "with scheduling points hooked into every evaluation step of jsonpath-rust (4 general harnesses + one harness per evaluation construct with the query parsed afresh for every "
        "execution; every exploration job runs in a fresh subprocess in deterministic order); each thread's results must equal the operations run alone; failing schedules are reproduced in "
        "two more fresh processes. (1b) the string entry points on every edge of a nodelist-transition BFS; (2c) queries interleaved with in-place updates of a live document against an equal "
        "freshly built document, with the queries also parsed once and kept over all update sequences; one kept parsed query per sentence over the whole panel copied into one variable. A supplementary free-running multi-thread pass is sampled, can only raise true alarms and is not counted as coverage.",
   design="4.C12", note="scheduling points exist only at the cfg-guarded hooks (entry of every Query::process impl, each filter item, between regex compilation and matching); a thread that waits in a synchronisation primitive the code under test brought along is set aside by a stall detector (deadlock = all threads set aside); Send + Sync is a type-check side condition (mc/static_assert); bounds: operation alphabet, window length, harness bodies, preemption bound",
   technique="stateless preemption-bounded schedule exploration of the real code under a controlled scheduler, plus exhaustive operation-history enumeration against a fresh-process baseline"),
 "C13": dict(
   text="For every abstract query of the generated set, every concrete spelling with one deviation from the canonical rendering (and all pairs / triples of deviations for every n-th query, "
        "plus all-sites-at-once variants): name as .n / ['n'] / [\"n\"], .* / [*], ..n / ..['n'], ?e / ?(e) / ?((e)), redundant parentheses, string and number literal spellings, each blank "
        "kind at each S site. Differential oracle: same parse outcome and same node sequence by address as the canonical spelling on every panel document (the panel includes documents with decoy members named like every spelling of their siblings' names). Every generated spelling is first "
        "required to be valid by the RFC recogniser (machinery guard).",
   design="4.C13", note="differential (no model needed for the verdict); bounds: abstract query set, k, document panel",
   technique="exhaustive enumeration of spelling variants up to k deviations with a differential oracle against the canonical spelling"),
 "C15": dict(
   text="Lock-step evaluation at five views of the same documents through all three trait entry points (query, query_with_path, query_only_path): serde_json::Value, an association-list "
        "view with one number type, a strict-accessor view, a hash-consed view in which equal sub-documents share storage (the three with three different non-null `Default` values), and a view presenting members in sorted order (compared as "
        "multisets): the generated query set x panel (incl. JSON-Pointer look-alike documents), the whole comparison table packed into one document, the slice cube; paths and serialized values must be identical.",
   design="4.C15", note="the alternative views strip key quotes exactly like the Value implementation (the trait leaves it to the implementor); extension functions are Value-only and excluded",
   technique="exhaustive enumeration of the query/document spaces of the other checks, run in lock-step over several trait implementations (differential)"),
}

checks = []
for pid in props:
    if pid not in CHECKS:
        continue
    c = CHECKS[pid]
    checks.append({
        "property_id": pid,
        "quick_cmd": f"./run {pid} quick",
        "thorough_cmd": f"./run {pid} thorough",
        "evidence_file": f"/verif/evidence/{pid}.json",
        "replay_cmd_template": "./run replay {path}",
        "engine": "jpmc",
        "level_claimed": {"category": "model_checking", "text": c["text"], "design_ref": c["design"]},
        "level_note": c["note"],
        "technique": c["technique"],
    })

hooks_commits = [l.strip() for l in open(os.path.join(HERE, "tools", "hook_commits.txt"))] if os.path.exists(os.path.join(HERE, "tools", "hook_commits.txt")) else []
m = {
    "version": 1,
    "setup_cmd": "cd mc && CARGO_NET_OFFLINE=true cargo build --profile mc",
    "hooks": {
        "guard": "jsonpath_rust_verif",
        "enable": "--cfg jsonpath_rust_verif via [build] rustflags in /verif/mc/.cargo/config.toml (the harness crate depends on /repo by path, so every check rebuilds the working tree with hooks on)",
        "baseline_off_cmd": "cd /repo && cargo test --workspace --no-fail-fast --offline",
        "source_commits": hooks_commits,
        "add_only": True,
    },
    "engines": [{"name": "jpmc", "path": "/verif/mc", "serves_properties": [c["property_id"] for c in checks],
                 "kind_free_text": "Rust harness: RFC 9535 reference model + bounded exhaustive explorers (nodelist BFS, table sweeps, language enumeration, history / schedule exploration) driving the real crate through its public API"}],
    "checks": checks,
    "not_applicable": [{"property_id": p, "reason": "check under construction in this round; not claimed until its command exists and passes on the unchanged tree"} for p in props if p not in CHECKS],
    "notes": "Exit codes of every command: 0 held (KNOWN-FINDING lines allowed), 1 violation (VIOLATION line with replay file), 2 machinery failure. Known findings: /verif/known_findings.json.",
}
json.dump(m, open(os.path.join(HERE, "MANIFEST.json"), "w"), indent=1)
print("checks:", [c["property_id"] for c in checks])
