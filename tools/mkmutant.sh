#!/bin/bash
# usage: mkmutant.sh <name> <file> <python-replace-old> <python-replace-new>   (authoring helper; works in the scratch worktree /tmp/wt/mut)
set -e
name="$1"; file="$2"; old="$3"; new="$4"
cd /tmp/wt/mut
git checkout -q -- . 
python3 - "$file" "$old" "$new" <<'PY'
import sys
f,old,new=sys.argv[1:4]
s=open(f).read()
if s.count(old)!=1:
    print("ERROR: pattern occurs",s.count(old),"times in",f); sys.exit(1)
open(f,'w').write(s.replace(old,new))
PY
git diff > /verif/mutants/$name.patch
git checkout -q -- .
echo "wrote /verif/mutants/$name.patch ($(wc -l < /verif/mutants/$name.patch) lines)"
