#!/bin/bash
# runs every quick check on the current tree and prints one line per property (used before every commit)
cd /verif
rc=0
for p in C01 C02 C03 C04 C05 C06 C07 C08 C09 C10 C11 C12 C13 C14 C15; do
  out=$(./run $p ${1:-quick} 2>&1); code=$?
  echo "$p exit=$code $(echo "$out" | tail -1 | cut -c1-160)"
  [ $code -ne 0 ] && rc=1 && echo "$out" | grep -E "MACHINERY|^VIOLATION" -A1 | head -6 | cut -c1-300
done
exit $rc
