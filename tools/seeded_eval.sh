#!/bin/bash
# usage: seeded_eval.sh <Cxx>[:suffix] [extra properties to run...]      (suffix e.g. -r2 for a second-round change)
# confirms a sub-agent's seeded change independently (suite green with it, demo fails with / passes without),
# stores it under /verif/seeded/<id>/, then runs the property's quick check against it in /repo and restores /repo.
arg="$1"; shift; extra="$@"
id="${arg%%:*}"; suffix=""; [ "$arg" != "$id" ] && suffix="${arg#*:}"
src=/tmp/wt/$id/_seeded; dst=/verif/seeded/$id$suffix
if [ -f "$src/patch.diff" ]; then
  mkdir -p $dst; cp $src/patch.diff $dst/patch.diff; cp $src/seeded_demo.rs $dst/seeded_demo.rs; cp $src/NOTES.md $dst/NOTES.md 2>/dev/null
elif [ ! -f "$dst/patch.diff" ]; then echo "$id: no patch"; exit 2; fi
W=/tmp/wt/mut; cd $W && git checkout -q -- . && rm -f tests/seeded_demo.rs
git apply $dst/patch.diff || { echo "$id: patch does not apply"; exit 2; }
lib=$(cargo test --offline --lib 2>&1 | grep -E "^test result" | head -1)
doc=$(cargo test --offline --doc 2>&1 | grep -E "^test result" | head -1)
mkdir -p tests; cp $dst/seeded_demo.rs tests/seeded_demo.rs
with=$(cargo test --offline --test seeded_demo 2>&1 | grep -E "^test result|^error" | head -1)
git checkout -q -- . 
without=$(cargo test --offline --test seeded_demo 2>&1 | grep -E "^test result|^error" | head -1)
rm -f tests/seeded_demo.rs
echo "$id suite-with-change: lib[$lib] doc[$doc]"
echo "$id demo-with-change: $with"
echo "$id demo-without:     $without"
cd /repo; [ -z "$(git status --porcelain -- src)" ] || { echo "/repo dirty"; exit 2; }
git apply $dst/patch.diff || { echo "$id: patch does not apply to /repo"; exit 2; }
trap 'cd /repo && git checkout -q -- .' EXIT
cd /verif
res=""
for p in $id $extra; do
  out=$(./run $p quick 2>&1); code=$?
  first=$(echo "$out" | grep -A1 -m1 '^VIOLATION' | tail -1 | cut -c1-260)
  echo "$id check $p quick: exit=$code violations=$(echo "$out" | grep -c '^VIOLATION') :: $first"
  res="$res $p=$code"
done
echo "$id RESULT:$res"
