#!/bin/bash
# usage: mutant_run.sh <patch file> [property] [tier]
# applies the patch to /repo, runs the repository's own suite (must stay green), runs the property's check
# (must exit 1 with a VIOLATION line whose replay also exits 1), then restores /repo.
patch="$(readlink -f "$1")"; base="$(basename "$patch" .patch)"; prop="${2:-${base%%-*}}"; tier="${3:-quick}"
cd /repo || exit 2
if [ -n "$(git status --porcelain -- src Cargo.toml)" ]; then echo "$base: /repo is dirty, refusing"; exit 2; fi
if ! git apply "$patch" 2>/tmp/mut_apply.err; then echo "$base: patch does not apply: $(head -1 /tmp/mut_apply.err)"; exit 2; fi
trap 'cd /repo && git checkout -q -- . ' EXIT
t=$(cargo test --offline 2>&1 | grep -E "^test result|^error" | head -3 | tr '\n' ' ')
if ! echo "$t" | grep -q "94 passed; 0 failed"; then echo "$base: UNREALISTIC (repository suite: $t)"; exit 3; fi
cd /verif
out=$(./run "$prop" "$tier" 2>&1); code=$?
first=$(echo "$out" | grep -m1 '^VIOLATION' | sed 's/.*replay=//')
nviol=$(echo "$out" | grep -c '^VIOLATION')
msg=$(echo "$out" | grep -A1 -m1 '^VIOLATION' | tail -1 | cut -c1-220)
if [ "$code" = "1" ] && [ -n "$first" ]; then
  rout=$(./run replay "$first" 2>&1); rcode=$?
  echo "$base: DETECTED by $prop $tier (exit 1, $nviol replay files; replay exit $rcode) :: $msg"
else
  echo "$base: MISSED by $prop $tier (exit $code) :: $(echo "$out" | tail -1 | cut -c1-200)"
fi
