#!/bin/bash
# usage: seeded_confirm.sh <Cxx>[:suffix]   first half of seeded_eval.sh: copies a sub-agent's seeded change to
# /verif/seeded/<id>/ and confirms it in the scratch worktree /tmp/wt/mut (suite green with it, demo fails with it and
# passes without it); does not touch /repo
arg="$1"; id="${arg%%:*}"; suffix=""; [ "$arg" != "$id" ] && suffix="${arg#*:}"
src=/tmp/wt/$id/_seeded; dst=/verif/seeded/$id$suffix
if [ -f "$src/patch.diff" ]; then
  mkdir -p $dst; cp $src/patch.diff $dst/patch.diff; cp $src/seeded_demo.rs $dst/seeded_demo.rs; cp $src/NOTES.md $dst/NOTES.md 2>/dev/null
elif [ ! -f "$dst/patch.diff" ]; then echo "$id: no patch"; exit 2; fi
W=/tmp/wt/mut; cd $W && git checkout -q -- . && rm -f tests/seeded_demo.rs
git apply $dst/patch.diff || { echo "$id: patch does not apply"; exit 2; }
lib=$(cargo test --offline --lib 2>&1 | grep -E "^test result" | head -1)
doc=$(cargo test --offline --doc 2>&1 | grep -E "^test result" | head -1)
mkdir -p tests; cp $dst/seeded_demo.rs tests/seeded_demo.rs
with=$(timeout 600 cargo test --offline --test seeded_demo 2>&1 | grep -E "^test result|^error" | head -1)
git checkout -q -- .
without=$(timeout 600 cargo test --offline --test seeded_demo 2>&1 | grep -E "^test result|^error" | head -1)
rm -f tests/seeded_demo.rs
echo "$id suite-with-change: lib[$lib] doc[$doc]"
echo "$id demo-with-change: $with"
echo "$id demo-without:     $without"
