//! C15: evaluation depends only on the `Queryable` view. Two further implementations of the trait are run in
//! lock-step with `serde_json::Value` on the same queries and documents.

use crate::acc::{Acc, Run};
use crate::gen::sentences;
use crate::model::render;
use jsonpath_rust::query::queryable::Queryable;
use crate::model::parse::rfc_parse;
use rayon::prelude::*;
use serde_json::{json, Map, Number, Value};
use std::panic::{catch_unwind, AssertUnwindSafe};

fn strip_quotes(key: &str) -> &str {
    if key.starts_with('\'') && key.ends_with('\'') {
        key.trim_matches('\'')
    } else if key.starts_with('"') && key.ends_with('"') {
        key.trim_matches('"')
    } else {
        key
    }
}

/// AltA: objects as an association list, one number type
#[derive(Clone, Debug)]
pub enum AltA {
    Null,
    Bool(bool),
    Num(f64, bool),
    Str(String),
    Arr(Vec<AltA>),
    Obj(Vec<(String, AltA)>),
}

/// `PartialEq` is a bound of the trait, not an accessor either. AltA's is JSON equality (numbers by value whatever
/// their origin, members regardless of order) - unlike serde_json's, which tells 2 from 2.0 - while AltB and AltS keep
/// the derived, representation-sensitive one: an engine that decides a query through `==` on the implementing type
/// gives different answers over different faithful views.
impl PartialEq for AltA {
    fn eq(&self, o: &AltA) -> bool {
        match (self, o) {
            (AltA::Null, AltA::Null) => true,
            (AltA::Bool(a), AltA::Bool(b)) => a == b,
            (AltA::Num(a, _), AltA::Num(b, _)) => a == b,
            (AltA::Str(a), AltA::Str(b)) => a == b,
            (AltA::Arr(a), AltA::Arr(b)) => a == b,
            (AltA::Obj(a), AltA::Obj(b)) => a.len() == b.len() && a.iter().all(|(k, v)| b.iter().any(|(k2, v2)| k == k2 && v == v2)),
            _ => false,
        }
    }
}

/// `Default` is a bound of the trait, not an accessor: nothing says it is JSON null, and the three views choose three
/// different non-null defaults (an empty object, the number 0, the empty string)
impl Default for AltA {
    fn default() -> Self {
        AltA::Obj(vec![])
    }
}

impl From<&str> for AltA {
    fn from(s: &str) -> Self {
        AltA::Str(s.to_string())
    }
}
impl From<String> for AltA {
    fn from(s: String) -> Self {
        AltA::Str(s)
    }
}
impl From<bool> for AltA {
    fn from(b: bool) -> Self {
        AltA::Bool(b)
    }
}
impl From<i64> for AltA {
    fn from(i: i64) -> Self {
        AltA::Num(i as f64, true)
    }
}
impl From<f64> for AltA {
    fn from(f: f64) -> Self {
        AltA::Num(f, false)
    }
}
impl From<Vec<AltA>> for AltA {
    fn from(v: Vec<AltA>) -> Self {
        AltA::Arr(v)
    }
}

impl Queryable for AltA {
    fn get(&self, key: &str) -> Option<&Self> {
        let key = strip_quotes(key);
        match self {
            AltA::Obj(m) => m.iter().find(|(k, _)| k == key).map(|(_, v)| v),
            _ => None,
        }
    }
    fn as_array(&self) -> Option<&Vec<Self>> {
        match self {
            AltA::Arr(a) => Some(a),
            _ => None,
        }
    }
    fn as_object(&self) -> Option<Vec<(&String, &Self)>> {
        match self {
            AltA::Obj(m) => Some(m.iter().map(|(k, v)| (k, v)).collect()),
            _ => None,
        }
    }
    fn as_str(&self) -> Option<&str> {
        match self {
            AltA::Str(s) => Some(s),
            _ => None,
        }
    }
    fn as_i64(&self) -> Option<i64> {
        match self {
            AltA::Num(f, true) => Some(*f as i64),
            _ => None,
        }
    }
    fn as_f64(&self) -> Option<f64> {
        match self {
            AltA::Num(f, _) => Some(*f),
            _ => None,
        }
    }
    fn as_bool(&self) -> Option<bool> {
        match self {
            AltA::Bool(b) => Some(*b),
            _ => None,
        }
    }
    fn null() -> Self {
        AltA::Null
    }
}

/// AltB: strict accessors (as_f64 is None for integers, as_i64 is None for floats), objects as parallel vectors
#[derive(Clone, PartialEq)]
pub enum AltB {
    Nil,
    B(bool),
    I(i64),
    F(f64),
    S(Box<str>, String),
    A(Vec<AltB>),
    O(Vec<String>, Vec<AltB>),
}

/// `Debug` is a bound of the trait, not an accessor: AltB's prints nothing about the value (a redacting `Debug`
/// that keeps payload out of logs); an engine that keys or compares anything on debug text confuses all values
impl std::fmt::Debug for AltB {
    fn fmt(&self, f: &mut std::fmt::Formatter<'_>) -> std::fmt::Result {
        write!(f, "AltB(..)")
    }
}

impl Default for AltB {
    fn default() -> Self {
        AltB::I(0)
    }
}

impl From<&str> for AltB {
    fn from(s: &str) -> Self {
        AltB::S(s.into(), s.to_string())
    }
}
impl From<String> for AltB {
    fn from(s: String) -> Self {
        AltB::S(s.clone().into_boxed_str(), s)
    }
}
impl From<bool> for AltB {
    fn from(b: bool) -> Self {
        AltB::B(b)
    }
}
impl From<i64> for AltB {
    fn from(i: i64) -> Self {
        AltB::I(i)
    }
}
impl From<f64> for AltB {
    fn from(f: f64) -> Self {
        AltB::F(f)
    }
}
impl From<Vec<AltB>> for AltB {
    fn from(v: Vec<AltB>) -> Self {
        AltB::A(v)
    }
}

impl Queryable for AltB {
    fn get(&self, key: &str) -> Option<&Self> {
        let key = strip_quotes(key);
        match self {
            AltB::O(ks, vs) => ks.iter().position(|k| k == key).map(|i| &vs[i]),
            _ => None,
        }
    }
    fn as_array(&self) -> Option<&Vec<Self>> {
        match self {
            AltB::A(a) => Some(a),
            _ => None,
        }
    }
    fn as_object(&self) -> Option<Vec<(&String, &Self)>> {
        match self {
            AltB::O(ks, vs) => Some(ks.iter().zip(vs.iter()).collect()),
            _ => None,
        }
    }
    fn as_str(&self) -> Option<&str> {
        match self {
            AltB::S(s, _) => Some(s),
            _ => None,
        }
    }
    fn as_i64(&self) -> Option<i64> {
        match self {
            AltB::I(i) => Some(*i),
            _ => None,
        }
    }
    fn as_f64(&self) -> Option<f64> {
        match self {
            AltB::F(f) => Some(*f),
            _ => None,
        }
    }
    fn as_bool(&self) -> Option<bool> {
        match self {
            AltB::B(b) => Some(*b),
            _ => None,
        }
    }
    fn null() -> Self {
        AltB::Nil
    }
}

/// AltS: a view with structural sharing - equal sub-documents are stored once (hash-consing, as a YAML-alias or
/// persistent-data-structure backed type would do); through the accessors it is indistinguishable from the value
#[derive(Clone, Debug, PartialEq, Default)]
pub struct AltS(pub std::sync::Arc<SNode>);

#[derive(Clone, Debug, PartialEq)]
pub enum SNode {
    Null,
    Bool(bool),
    Int(i64),
    Float(f64),
    Str(String),
    Arr(Vec<AltS>),
    Obj(Vec<(String, AltS)>),
}

impl Default for SNode {
    fn default() -> Self {
        SNode::Str(String::new())
    }
}

impl From<&str> for AltS {
    fn from(s: &str) -> Self {
        AltS(std::sync::Arc::new(SNode::Str(s.to_string())))
    }
}
impl From<String> for AltS {
    fn from(s: String) -> Self {
        AltS(std::sync::Arc::new(SNode::Str(s)))
    }
}
impl From<bool> for AltS {
    fn from(b: bool) -> Self {
        AltS(std::sync::Arc::new(SNode::Bool(b)))
    }
}
impl From<i64> for AltS {
    fn from(i: i64) -> Self {
        AltS(std::sync::Arc::new(SNode::Int(i)))
    }
}
impl From<f64> for AltS {
    fn from(f: f64) -> Self {
        AltS(std::sync::Arc::new(SNode::Float(f)))
    }
}
impl From<Vec<AltS>> for AltS {
    fn from(v: Vec<AltS>) -> Self {
        AltS(std::sync::Arc::new(SNode::Arr(v)))
    }
}

impl Queryable for AltS {
    fn get(&self, key: &str) -> Option<&Self> {
        let key = strip_quotes(key);
        match &*self.0 {
            SNode::Obj(m) => m.iter().find(|(k, _)| k == key).map(|(_, v)| v),
            _ => None,
        }
    }
    fn as_array(&self) -> Option<&Vec<Self>> {
        match &*self.0 {
            SNode::Arr(a) => Some(a),
            _ => None,
        }
    }
    fn as_object(&self) -> Option<Vec<(&String, &Self)>> {
        match &*self.0 {
            SNode::Obj(m) => Some(m.iter().map(|(k, v)| (k, v)).collect()),
            _ => None,
        }
    }
    fn as_str(&self) -> Option<&str> {
        match &*self.0 {
            SNode::Str(s) => Some(s),
            _ => None,
        }
    }
    fn as_i64(&self) -> Option<i64> {
        match &*self.0 {
            SNode::Int(i) => Some(*i),
            _ => None,
        }
    }
    fn as_f64(&self) -> Option<f64> {
        match &*self.0 {
            SNode::Float(f) => Some(*f),
            SNode::Int(i) => Some(*i as f64),
            _ => None,
        }
    }
    fn as_bool(&self) -> Option<bool> {
        match &*self.0 {
            SNode::Bool(b) => Some(*b),
            _ => None,
        }
    }
    fn null() -> Self {
        AltS(std::sync::Arc::new(SNode::Null))
    }
}

impl jsonpath_rust::JsonPath for AltS {}

fn hash_cons(v: &Value, memo: &mut std::collections::HashMap<String, AltS>) -> AltS {
    let key = serde_json::to_string(v).unwrap();
    if let Some(x) = memo.get(&key) {
        return x.clone();
    }
    let node = match v {
        Value::Null => SNode::Null,
        Value::Bool(b) => SNode::Bool(*b),
        Value::Number(n) => match n.as_i64() {
            Some(i) => SNode::Int(i),
            None => SNode::Float(n.as_f64().unwrap()),
        },
        Value::String(s) => SNode::Str(s.clone()),
        Value::Array(a) => SNode::Arr(a.iter().map(|x| hash_cons(x, memo)).collect()),
        Value::Object(m) => SNode::Obj(m.iter().map(|(k, x)| (k.clone(), hash_cons(x, memo))).collect()),
    };
    let x = AltS(std::sync::Arc::new(node));
    memo.insert(key, x.clone());
    x
}

impl View for AltS {
    fn from_json(v: &Value) -> Self {
        hash_cons(v, &mut std::collections::HashMap::new())
    }
    fn to_json(&self) -> Value {
        match &*self.0 {
            SNode::Null => Value::Null,
            SNode::Bool(b) => Value::Bool(*b),
            SNode::Int(i) => Value::from(*i),
            SNode::Float(f) => Number::from_f64(*f).map(Value::Number).unwrap_or(Value::Null),
            SNode::Str(s) => Value::String(s.clone()),
            SNode::Arr(a) => Value::Array(a.iter().map(|x| x.to_json()).collect()),
            SNode::Obj(m) => Value::Object(m.iter().map(|(k, v)| (k.clone(), v.to_json())).collect::<Map<_, _>>()),
        }
    }
}

pub trait View: Queryable {
    fn from_json(v: &Value) -> Self;
    fn to_json(&self) -> Value;
}

impl View for Value {
    fn from_json(v: &Value) -> Self {
        v.clone()
    }
    fn to_json(&self) -> Value {
        self.clone()
    }
}

impl View for AltA {
    fn from_json(v: &Value) -> Self {
        match v {
            Value::Null => AltA::Null,
            Value::Bool(b) => AltA::Bool(*b),
            Value::Number(n) => match n.as_i64() {
                Some(i) => AltA::Num(i as f64, true),
                None => AltA::Num(n.as_f64().unwrap(), false),
            },
            Value::String(s) => AltA::Str(s.clone()),
            Value::Array(a) => AltA::Arr(a.iter().map(AltA::from_json).collect()),
            Value::Object(m) => AltA::Obj(m.iter().map(|(k, v)| (k.clone(), AltA::from_json(v))).collect()),
        }
    }
    fn to_json(&self) -> Value {
        match self {
            AltA::Null => Value::Null,
            AltA::Bool(b) => Value::Bool(*b),
            AltA::Num(f, true) => Value::from(*f as i64),
            AltA::Num(f, false) => Number::from_f64(*f).map(Value::Number).unwrap_or(Value::Null),
            AltA::Str(s) => Value::String(s.clone()),
            AltA::Arr(a) => Value::Array(a.iter().map(|x| x.to_json()).collect()),
            AltA::Obj(m) => Value::Object(m.iter().map(|(k, v)| (k.clone(), v.to_json())).collect::<Map<_, _>>()),
        }
    }
}

impl View for AltB {
    fn from_json(v: &Value) -> Self {
        match v {
            Value::Null => AltB::Nil,
            Value::Bool(b) => AltB::B(*b),
            Value::Number(n) => match n.as_i64() {
                Some(i) => AltB::I(i),
                None => AltB::F(n.as_f64().unwrap()),
            },
            Value::String(s) => AltB::from(s.as_str()),
            Value::Array(a) => AltB::A(a.iter().map(AltB::from_json).collect()),
            Value::Object(m) => AltB::O(m.keys().cloned().collect(), m.values().map(AltB::from_json).collect()),
        }
    }
    fn to_json(&self) -> Value {
        match self {
            AltB::Nil => Value::Null,
            AltB::B(b) => Value::Bool(*b),
            AltB::I(i) => Value::from(*i),
            AltB::F(f) => Number::from_f64(*f).map(Value::Number).unwrap_or(Value::Null),
            AltB::S(s, _) => Value::String(s.to_string()),
            AltB::A(a) => Value::Array(a.iter().map(|x| x.to_json()).collect()),
            AltB::O(ks, vs) => Value::Object(ks.iter().cloned().zip(vs.iter().map(|x| x.to_json())).collect::<Map<_, _>>()),
        }
    }
}

/// result of one evaluation in a representation that is comparable across data types
pub type Obs = Result<Vec<(String, String)>, String>;

impl jsonpath_rust::JsonPath for AltA {}
impl jsonpath_rust::JsonPath for AltB {}

/// paths and values through `query_with_path`, and the values through `query` (the convenience entry point a caller
/// of the trait uses), which must be the same values in the same order
pub fn run_on<T: View + jsonpath_rust::JsonPath>(q: &str, doc: &T) -> Obs {
    let with_path = match catch_unwind(AssertUnwindSafe(|| doc.query_with_path(q).map(|v| v.into_iter().map(|r| (r.clone().path(), serde_json::to_string(&r.val().to_json()).unwrap())).collect::<Vec<_>>()))) {
        Ok(Ok(v)) => v,
        Ok(Err(e)) => return Err(format!("Err({})", e.to_string().lines().last().unwrap_or("").trim())),
        Err(p) => return Err(format!("PANIC({})", crate::imp::panic_text(p))),
    };
    let vals = match catch_unwind(AssertUnwindSafe(|| doc.query(q).map(|v| v.into_iter().map(|r| serde_json::to_string(&r.to_json()).unwrap()).collect::<Vec<_>>()))) {
        Ok(Ok(v)) => v,
        Ok(Err(e)) => return Err(format!("query(): Err({})", e.to_string().lines().last().unwrap_or("").trim())),
        Err(p) => return Err(format!("query(): PANIC({})", crate::imp::panic_text(p))),
    };
    let paths = match catch_unwind(AssertUnwindSafe(|| doc.query_only_path(q))) {
        Ok(Ok(v)) => v,
        Ok(Err(e)) => return Err(format!("query_only_path(): Err({})", e.to_string().lines().last().unwrap_or("").trim())),
        Err(p) => return Err(format!("query_only_path(): PANIC({})", crate::imp::panic_text(p))),
    };
    if vals != with_path.iter().map(|x| x.1.clone()).collect::<Vec<_>>() {
        return Err(format!("query() returns {:?} but query_with_path() returns {:?}", vals, with_path));
    }
    if paths != with_path.iter().map(|x| x.0.clone()).collect::<Vec<_>>() {
        return Err(format!("query_only_path() returns {:?} but query_with_path() returns {:?}", paths, with_path));
    }
    Ok(with_path)
}

/// the same value with the members of every object in sorted order (what serde_json's default BTreeMap build
/// would present): a different but equally faithful member order
fn sorted_members(v: &Value) -> Value {
    match v {
        Value::Array(a) => Value::Array(a.iter().map(sorted_members).collect()),
        Value::Object(m) => {
            let mut ks: Vec<&String> = m.keys().collect();
            ks.sort();
            Value::Object(ks.into_iter().map(|k| (k.clone(), sorted_members(&m[k]))).collect::<Map<_, _>>())
        }
        other => other.clone(),
    }
}

pub struct Doc3 {
    pub v: Value,
    pub a: AltA,
    pub b: AltB,
    /// AltA over the member-sorted document
    pub c: AltA,
    /// structurally shared (hash-consed) view
    pub s: AltS,
    /// AltA keeps every number in an f64: documents with integers it cannot hold exactly are compared over the other
    /// views only
    pub a_exact: bool,
}

impl Drop for Doc3 {
    fn drop(&mut self) {
        // the per-thread history of (query, document) pairs borrows documents by address: forget the entries that
        // point into this one (a Doc3 that lives shorter than the run is created, used and dropped on one thread)
        let me = &self.v as *const Value;
        let _ = RECENT_Q.try_with(|r| {
            if let Ok(mut r) = r.try_borrow_mut() {
                r.retain(|(_, p)| *p != me);
            }
        });
    }
}

impl Doc3 {
    pub fn new(v: &Value) -> Doc3 {
        let a = AltA::from_json(v);
        let a_exact = a.to_json() == *v && serde_json::to_string(&a.to_json()).ok() == serde_json::to_string(v).ok();
        Doc3 { v: v.clone(), a, b: AltB::from_json(v), c: AltA::from_json(&sorted_members(v)), s: AltS::from_json(v), a_exact }
    }
}

fn as_multiset(o: &Obs) -> Result<Vec<(String, String)>, String> {
    o.clone().map(|mut v| {
        // values are compared modulo member order as well
        for x in v.iter_mut() {
            if let Ok(val) = crate::imp::json_unbounded(&x.1) {
                x.1 = serde_json::to_string(&sorted_members(&val)).unwrap();
            }
        }
        v.sort();
        v
    })
}

thread_local! {
    /// the queries this worker thread ran in lock-step most recently (a difference that depends on what an earlier
    /// query left behind on the thread is only reproducible together with them)
    static RECENT_Q: std::cell::RefCell<Vec<(String, *const Value)>> = std::cell::RefCell::new(Vec::new());
}

/// the earlier (query, document) pairs of this thread, oldest first; documents are borrowed from the check's own
/// panel, which outlives every call (they are only dereferenced when a violation is being recorded)
fn recent_queries(q: &str, d: &Doc3) -> Vec<(String, *const Value)> {
    RECENT_Q.with(|r| {
        let mut r = r.borrow_mut();
        let h = r.clone();
        r.push((q.to_string(), &d.v as *const Value));
        if r.len() > 24 {
            r.remove(0);
        }
        h
    })
}

pub fn lockstep(acc: &mut Acc, q: &str, d: &Doc3, class: &str) {
    let history = recent_queries(q, d);
    lockstep_h(acc, q, d, class, &history)
}

fn history_json(history: &[(String, *const Value)]) -> Value {
    Value::Array(
        history
            .iter()
            .map(|(q, d)| {
                // SAFETY: see recent_queries
                let doc = unsafe { &**d };
                let text = serde_json::to_string(doc).unwrap_or_default();
                json!({"query": q, "doc": if text.len() <= 4096 { doc.clone() } else { Value::Null }})
            })
            .collect(),
    )
}

fn lockstep_h(acc: &mut Acc, q: &str, d: &Doc3, class: &str, history: &[(String, *const Value)]) {
    acc.evals += 1;
    let r0 = run_on(q, &d.v);
    let r1 = run_on(q, &d.a);
    let r2 = run_on(q, &d.b);
    if let Ok(v) = &r0 {
        if !v.is_empty() {
            acc.nontrivial += 1;
        }
    }
    let r4 = run_on(q, &d.s);
    for (name, r) in [("AltA (association-list objects, one number type)", &r1), ("AltB (strict numeric accessors)", &r2), ("AltS (equal sub-documents share storage)", &r4)] {
        if name.starts_with("AltA") && !d.a_exact {
            continue;
        }
        if r != &r0 {
            acc.viol(
                format!("{} on {}: serde_json::Value gives {:?} but the equivalent {} gives {:?}", q, d.v, r0, name, r),
                json!({"kind": "views", "class": class, "query": q, "doc": d.v, "history": history_json(history)}),
            );
            return;
        }
    }
    // a view that presents the members of objects in another (sorted) order: the set of (path, value) results must
    // be the same - member order may only influence the order of results, never membership
    let r3 = run_on(q, &d.c);
    if d.a_exact && as_multiset(&r3) != as_multiset(&r0) {
        acc.viol(
            format!("{} on {}: serde_json::Value gives {:?} but a view presenting the same members in sorted order gives {:?} (as multisets they must agree)", q, d.v, r0, r3),
            json!({"kind": "views", "class": format!("{} (member order)", class), "query": q, "doc": d.v}),
        );
        return;
    }
    acc.sample(|| json!({"query": q, "doc": d.v, "result": format!("{:?}", r0)}));
}

/// integers above i64::MAX have no faithful counterpart in the alternative views (the trait offers as_i64 / as_f64
/// only); documents and cells holding one are left to the checks over serde_json::Value
fn has_big_u64(v: &Value) -> bool {
    match v {
        Value::Number(n) => n.is_u64() && !n.is_i64(),
        Value::Array(a) => a.iter().any(has_big_u64),
        Value::Object(m) => m.values().any(has_big_u64),
        _ => false,
    }
}

pub fn run(tier: &str) -> i32 {
    let run = Run::new("C15", tier);
    let th = run.thorough();
    // machinery guard: both views round-trip every panel document
    let mut panel = crate::checks::lang::eval_panel();
    panel.extend(crate::gen::docs::panel());
    panel.push(json!([1, 1.0, 1.5, -1, 0, 100, 1e2, "1", "a", true, null, [1], [1.0], {"a": 1}, {"a": 1.0}]));
    panel.retain(|d| !has_big_u64(d));
    // deeper than a parser accepts / wide around powers of two
    panel.extend(crate::gen::docs::deep_docs(false).into_iter().skip(9).step_by(11).take(2));
    for n in [64usize, 65, 257] {
        panel.push(Value::Array((0..n).map(|i| if i % 4 == 0 { json!({"a": i, "b": [i]}) } else { json!(i % 3) }).collect()));
        panel.push(Value::Object((0..n).map(|i| (if i == 3 { "a".to_string() } else { format!("k{}", i) }, if i % 4 == 0 { json!([i, "x"]) } else { json!(i % 3) })).collect()));
    }
    for d in &panel {
        if AltA::from_json(d).to_json() != *d || AltB::from_json(d).to_json() != *d || AltS::from_json(d).to_json() != *d {
            eprintln!("MACHINERY: a view does not round-trip {}", d);
            return 2;
        }
    }
    panel.extend([
        json!({"items": ["a", "b", "c"], "m": {"0": "zero", "1": "one"}, "a/b": 1, "a": {"b": 2}, "x~1y": 1, "x/y": 2, "~0": 3, "~": 4}),
        json!([{"0": 1}, [0, 1]]),
    ]);
    panel.extend([
        json!({"a": {"x": [1]}, "b": {"x": [1]}}),
        json!([[{"k": [1, 2]}], [{"k": [1, 2]}], {"k": [1, 2]}]),
        json!({"p": [[1], [1], [[1]]], "q": [[1], [[1]]]}),
    ]);
    let docs: Vec<Doc3> = panel.iter().map(Doc3::new).collect();
    let depths: Vec<usize> = panel.iter().map(crate::gen::docs::depth).collect();
    // 1. sentence set x panel
    let sents = sentences::sentences(th);
    let a = sents
        .par_iter()
        .map(|q| {
            let mut acc = Acc::new();
            let s = render::query(q);
            for (d, depth) in docs.iter().zip(depths.iter()) {
                if crate::gen::docs::too_big(&s, *depth) {
                    acc.bump("skipped_multi_descendant_on_deep_document", 1);
                    continue;
                }
                lockstep(&mut acc, &s, d, "sentences");
            }
            acc
        })
        .reduce(Acc::new, Acc::merge);
    // 1b. name / index paths on documents where JSON Pointer and JSONPath semantics differ
    let a = {
        let mut acc = a;
        for q in ["$.items['1']", "$.items[1]", "$.m[0]", "$.m['0']", "$['a/b']", "$['a']['b']", "$['x~1y']", "$['x/y']", "$['~0']", "$['~']", "$[0]['0']", "$[0][0]", "$[1]['0']", "$[1][0]", "$['0']", "$.items['-1']", "$.items[-1]"] {
            for d in &docs {
                lockstep(&mut acc, q, d, "pointer look-alikes");
            }
        }
        acc
    };
    // 1c. every name of the odd-names universe in every spelling, in several syntactic positions: what reaches
    // `Queryable::get` (quotes, escapes) must mean the same at every implementation
    let a = {
        let names = crate::gen::docs::names_universe(false);
        let acc = names
            .par_iter()
            .map(|d| {
                let mut acc = Acc::new();
                let d3 = Doc3::new(d);
                let base = crate::gen::alpha::alphabet(d, crate::gen::alpha::AlphaSize::Singles, 3, true).base;
                // whole-value comparisons of nodes whose member names are odd (member names of the document must be
                // matched as they are, never as query text)
                for q in ["$[?@==@]", "$[?@!=@]", "$..[?@==@]", "$[?@==$[0]]", "$[?@<=$[0]]", "$.*[?@==@]", "$[?@==$]", "$..[?@==$[0]]"] {
                    lockstep(&mut acc, q, &d3, "odd names: whole-value comparisons");
                }
                for s in &base {
                    if let crate::model::ast::Sel::Name { val, raw } = s {
                        let t = if raw.starts_with('\'') || raw.starts_with('"') { raw.clone() } else { render::quote_single(val) };
                        for c in ["$[{}]", "$..[{}]", "$[*][{}]", "$[?@[{}]]", "$[?@[{}]==1]", "$[?count(@[{}])==1]", "$[?length(@[{}])>=0]", "$[?@.*[{}]]", "$[{},{}]", "$[?$[{}]]"] {
                            let q = c.replace("{}", &t);
                            if rfc_parse(&q).is_ok() {
                                lockstep(&mut acc, &q, &d3, "odd names in every spelling and position");
                            }
                        }
                    }
                }
                acc
            })
            .reduce(Acc::new, Acc::merge);
        a.merge(acc)
    };
    // 2. comparison table
    let uni: Vec<Option<Value>> = crate::checks::compare::universe(th).into_iter().filter(|v| !v.as_ref().map_or(false, has_big_u64)).collect();
    // integers beyond 2^53 that differ but round to one f64: whatever the engine answers for them, it must answer
    // the same over every view (which accessor a view offers for an integer must not matter)
    // (a second table: AltA cannot hold them and is left out of it, see Doc3::a_exact)
    let mut uni_big: Vec<Option<Value>> = vec![None, Some(json!(1)), Some(json!(9007199254740991i64)), Some(json!(9007199254740992.0))];
    for x in [9007199254740992i64, 9007199254740993, -9007199254740993, 9223372036854775807, 9223372036854775806] {
        uni_big.push(Some(json!(x)));
    }
    uni_big.push(Some(json!([9007199254740993i64])));
    uni_big.push(Some(json!([9007199254740992i64])));
    uni_big.push(Some(json!({"a": 9007199254740992i64})));
    uni_big.push(Some(json!({"a": 9007199254740993i64})));
    let mut cells_big = vec![];
    for x in &uni_big {
        for y in &uni_big {
            let mut m = Map::new();
            if let Some(x) = x {
                m.insert("x".into(), x.clone());
            }
            if let Some(y) = y {
                m.insert("y".into(), y.clone());
            }
            cells_big.push(Value::Object(m));
        }
    }
    let big2 = Doc3::new(&Value::Array(cells_big));
    let lits = crate::checks::compare::literals(th);
    let mut cells = vec![];
    for x in &uni {
        for y in &uni {
            let mut m = Map::new();
            if let Some(x) = x {
                m.insert("x".into(), x.clone());
            }
            if let Some(y) = y {
                m.insert("y".into(), y.clone());
            }
            cells.push(Value::Object(m));
        }
    }
    let big = Doc3::new(&Value::Array(cells));
    let mut qs: Vec<String> = vec![];
    for op in crate::model::ast::Op::ALL {
        qs.push(format!("$[?@.x{}@.y]", op.text()));
        qs.push(format!("$[?length(@.x){}length(@.y)]", op.text()));
        qs.push(format!("$[?count(@.x.*){}@.y]", op.text()));
        qs.push(format!("$[?value(@.x.*){}@.y]", op.text()));
        for (l, _) in &lits {
            qs.push(format!("$[?@.x{}{}]", op.text(), l));
            qs.push(format!("$[?{}{}@.y]", l, op.text()));
            // both operands computed by the engine (function result / literal): no node of the document involved
            qs.push(format!("$[?length(@.x){}{}]", op.text(), l));
            qs.push(format!("$[?{}{}count(@.y.*)]", l, op.text()));
            qs.push(format!("$[?length(value(@.x)){}{}]", op.text(), l));
            for (l2, _) in lits.iter().take(12) {
                qs.push(format!("$[?{}{}{}]", l, op.text(), l2));
            }
        }
    }
    for f in ["match", "search"] {
        for p in ["a", ".", "a|b", "1", ""] {
            qs.push(format!("$[?{}(@.x,'{}')]", f, p));
            qs.push(format!("$[?{}(@.x,@.y)]", f));
        }
    }
    let b = qs
        .par_iter()
        .map(|q| {
            let mut acc = Acc::new();
            lockstep(&mut acc, q, &big, "comparison table");
            lockstep(&mut acc, q, &big2, "comparison table (integers beyond 2^53)");
            acc.bump("comparison_cells", (uni.len() * uni.len()) as u64);
            acc
        })
        .reduce(Acc::new, Acc::merge);
    // 3. slice cube on arrays
    let arrays: Vec<Doc3> = (0..=6).map(|n| Doc3::new(&Value::Array((0..n).map(|i| json!(i)).collect()))).collect();
    let r: Vec<Option<i64>> = std::iter::once(None).chain((-7..=7).map(Some)).collect();
    let mut cube = vec![];
    for a in &r {
        for b in &r {
            for c in &r {
                cube.push((*a, *b, *c));
            }
        }
    }
    let f = |x: &Option<i64>| x.map(|v| v.to_string()).unwrap_or_default();
    let c = cube
        .par_iter()
        .map(|(x, y, z)| {
            let mut acc = Acc::new();
            let q = format!("$[{}:{}:{}]", f(x), f(y), f(z));
            for d in &arrays {
                lockstep(&mut acc, &q, d, "slice cube");
            }
            acc
        })
        .reduce(Acc::new, Acc::merge);
    run.finish(
        a.merge(b).merge(c),
        "one case = (query, document) evaluated in lock-step at several implementations of Queryable: serde_json::Value, AltS (hash-consed: equal sub-documents share storage), each with a different non-null `Default`; AltA (objects as association lists, a single float-backed number type that still answers as_i64 for integers) and AltB (strict accessors: as_f64 is None for integers and as_i64 is None for floats; objects as parallel vectors), each converted from the same JSON value preserving member order; oracle: identical path lists and identical values (serialized) ; spaces: the generated sentence set x document panel, the comparison table packed into one document, the slice cube; non-trivial = the Value evaluation selects at least one node",
        &["`Queryable::get` strips the enclosing quotes of the key exactly as the implementation for serde_json::Value does (the trait documentation leaves that to the implementor)", "the extension functions of C14 are defined for serde_json::Value only and are not part of this check"],
        true,
        json!({"panel_documents": docs.len(), "sentences": sents.len()}),
    )
}

pub fn replay(case: &Value, _run: &Run) -> Acc {
    let d = Doc3::new(&case["doc"]);
    let q = case["query"].as_str().unwrap_or("$");
    // three attempts, each on a thread of its own (per-thread state starts empty): the case alone; the case after the
    // queries the worker thread had run before it; the case after the whole quick sentence set and that history
    let attempt = |level: usize| -> Acc {
        let mut acc = Acc::new();
        std::thread::scope(|s| {
            s.spawn(|| {
                let mut scratch = Acc::new();
                if level >= 2 {
                    let panel: Vec<Doc3> = crate::checks::lang::eval_panel().iter().filter(|x| !has_big_u64(x)).map(Doc3::new).collect();
                    for sn in sentences::sentences(false) {
                        let text = render::query(&sn);
                        for p in &panel {
                            lockstep_h(&mut scratch, &text, p, "warm-up", &[]);
                        }
                    }
                }
                if level >= 1 {
                    if let Some(h) = case["history"].as_array() {
                        for x in h.iter() {
                            if let Some(hq) = x["query"].as_str() {
                                if x["doc"].is_null() {
                                    lockstep_h(&mut scratch, hq, &d, "history", &[]);
                                } else {
                                    lockstep_h(&mut scratch, hq, &Doc3::new(&x["doc"]), "history", &[]);
                                }
                            }
                        }
                    }
                }
                lockstep_h(&mut acc, q, &d, "replay", &[]);
            })
            .join()
            .expect("replay thread");
        });
        acc
    };
    for level in 0..3 {
        let acc = attempt(level);
        if acc.viol_count > 0 || level == 2 {
            println!("query : {}  ({})", q, ["alone on a fresh thread", "after the worker thread's recent queries", "after the sentence set and the worker thread's recent queries"][level]);
            println!("Value : {:?}", run_on(q, &d.v));
            if let Some(m) = acc.first_violation() {
                println!("{}", m.chars().take(600).collect::<String>());
            }
            return acc;
        }
    }
    Acc::new()
}
