//! Shared case checker: one (query string, document) pair evaluated by the implementation through
//! `query_with_path` and by the reference model, with known-finding attribution.

use crate::acc::{Acc, Run};
use crate::findings::candidate_masks;
use crate::imp::{self, AddrMap, ImplOut, FABRICATED};
use crate::model::ast::Query;
use crate::model::eval::{Ctx, EDev, Loc};
use crate::model::normpath::normpath;
use crate::model::parse::rfc_parse;
use serde_json::{json, Value};
use std::collections::HashMap;

pub struct DocCtx<'a> {
    pub doc: &'a Value,
    pub am: AddrMap,
    pub ids: HashMap<Loc, u32>,
}

impl<'a> DocCtx<'a> {
    pub fn new(doc: &'a Value) -> DocCtx<'a> {
        let am = AddrMap::new(doc);
        let ids = am.locs.iter().enumerate().map(|(i, l)| (l.clone(), i as u32)).collect();
        DocCtx { doc, am, ids }
    }
    pub fn fmt(&self, ids: &[u32]) -> String {
        let v: Vec<String> = ids.iter().map(|i| if *i == FABRICATED { "<not a document node>".to_string() } else { normpath(self.am.loc(*i)) }).collect();
        format!("[{}]", v.join(", "))
    }
    pub fn model_ids(&self, q: &Query, dev: EDev) -> Option<Vec<u32>> {
        let ctx = Ctx { root: self.doc, dev };
        let n = ctx.eval_query(q).ok()?;
        Some(n.iter().map(|x| self.ids[&x.loc]).collect())
    }
}

#[derive(Clone, Copy, PartialEq, Eq, Debug)]
pub enum Outcome {
    /// agreement; the number of selected nodes
    Agree(usize),
    Known,
    Violation,
    Skipped,
}

#[derive(Clone, Copy, PartialEq, Eq, Debug)]
pub enum Mode {
    /// compare the sequence of nodes (multiset when the query has a descendant segment, whose order RFC 9535 leaves open)
    Nodes,
    /// additionally every reported path must be the normalized path of its node
    NodesAndPaths,
    /// compare the nodes as a multiset only (C01: which nodes, how often - not in which order)
    Multiset,
}

fn has_desc(q: &Query) -> bool {
    q.segs.iter().any(|s| s.desc)
}

pub fn case_json(q: &str, doc: &Value, class: &str) -> Value {
    json!({"kind": "query", "query": q, "doc": doc, "class": class})
}

fn case_json_m(q: &str, doc: &Value, class: &str, mode: Mode) -> Value {
    json!({"kind": "query", "query": q, "doc": doc, "class": class, "paths": mode == Mode::NodesAndPaths, "multiset": mode == Mode::Multiset})
}

/// evaluate `q` (already known to be a valid RFC 9535 query, `ast` its model AST) on `dc.doc` and compare
pub fn check_case(run: &Run, acc: &mut Acc, q: &str, ast: &Query, dc: &DocCtx, mode: Mode, class: &str) -> Outcome {
    let out = imp::run_with_path(q, dc.doc, &dc.am);
    check_obs(run, acc, q, ast, dc, &out, mode, class)
}

/// same, for an observation obtained through another entry point (`q` is then only the label / replay text)
pub fn check_obs(run: &Run, acc: &mut Acc, q: &str, ast: &Query, dc: &DocCtx, out: &ImplOut, mode: Mode, class: &str) -> Outcome {
    acc.evals += 1;
    let obs = match out {
        ImplOut::Ok(v) => v,
        other => {
            // a valid query that the parser rejects is C06's business, not this property's
            if run.prop != "C06" && imp::parse_ok(q) == Some(false) {
                acc.bump("skipped_rejected_by_parser", 1);
                return Outcome::Skipped;
            }
            acc.viol(format!("{} on {}: a valid query must evaluate, got {}", q, dc.doc, other.short()), case_json(q, dc.doc, class));
            return Outcome::Violation;
        }
    };
    let got: Vec<u32> = obs.iter().map(|x| x.0).collect();
    if got.iter().any(|i| *i == FABRICATED) {
        acc.viol(format!("{} on {}: a returned value is not a node of the document", q, dc.doc), case_json(q, dc.doc, class));
        return Outcome::Violation;
    }
    // RFC 9535 leaves the visiting order of object members under a descendant segment open; C02 fixes it (the document's
    // own member order, which is what the model produces), the other properties compare such results as multisets
    let unordered = (has_desc(ast) && run.prop != "C02") || mode == Mode::Multiset;
    let key = |mut v: Vec<u32>| {
        if unordered {
            v.sort();
        }
        v
    };
    let strict = match dc.model_ids(ast, EDev::default()) {
        Some(v) => v,
        None => {
            acc.bump("skipped_outside_model", 1);
            return Outcome::Skipped;
        }
    };
    let got_k = key(got.clone());
    let mut ok = key(strict.clone()) == got_k;
    let mut why = String::new();
    if !ok {
        why = format!("the model selects {} but the implementation returned {}", dc.fmt(&strict), dc.fmt(&got));
    }
    if ok && mode == Mode::NodesAndPaths {
        for (id, p) in obs {
            let np = normpath(dc.am.loc(*id));
            if *p != np {
                ok = false;
                why = format!("node {} is reported with path {:?}", np, p);
                break;
            }
        }
    }
    if ok {
        return Outcome::Agree(got.len());
    }
    let allowed = run.findings.edev_mask(&run.prop);
    for mask in candidate_masks(allowed) {
        let dev = EDev::from_mask(mask);
        let ctx = Ctx { root: dc.doc, dev };
        if let Ok(n) = ctx.eval_query(ast) {
            let ids: Vec<u32> = n.iter().map(|x| dc.ids[&x.loc]).collect();
            let same_nodes = key(ids.clone()) == got_k;
            let same_paths = mode != Mode::NodesAndPaths
                || (ids.len() == obs.len()
                    && n.iter().zip(obs.iter()).all(|(m, o)| if dev.legacy_path { m.lpath == o.1 } else { normpath(&m.loc) == o.1 }));
            if same_nodes && same_paths {
                for id in run.findings.ids_for_mask(&run.prop, mask) {
                    acc.known(&id, || format!("{} on {}", q, dc.doc));
                }
                return Outcome::Known;
            }
        }
    }
    acc.viol(format!("{} on {}: {}", q, dc.doc, why), case_json_m(q, dc.doc, class, mode));
    Outcome::Violation
}

/// replay of a recorded "query" case
pub fn replay_query(case: &Value, run: &Run) -> Acc {
    let mut acc = Acc::new();
    let q = case["query"].as_str().unwrap_or("$");
    let doc = &case["doc"];
    let dc = DocCtx::new(doc);
    println!("document : {}", doc);
    println!("query    : {}", q);
    println!("observed : {:?}", imp::run_with_path(q, doc, &dc.am));
    match rfc_parse(q) {
        Ok((ast, _)) => {
            if let Some(ids) = dc.model_ids(&ast, EDev::default()) {
                println!("model    : {}", dc.fmt(&ids));
            }
            let mode = if case["paths"].as_bool().unwrap_or(false) {
                Mode::NodesAndPaths
            } else if case["multiset"].as_bool().unwrap_or(false) {
                Mode::Multiset
            } else {
                Mode::Nodes
            };
            check_case(run, &mut acc, q, &ast, &dc, mode, case["class"].as_str().unwrap_or("-"));
        }
        Err(e) => println!("model    : not a valid RFC 9535 query ({:?})", e),
    }
    acc
}

/// strict agreement only (nothing recorded): None = outside the model
pub fn agrees(q: &str, ast: &Query, dc: &DocCtx) -> Option<(bool, Vec<u32>)> {
    let out = imp::run_with_path(q, dc.doc, &dc.am);
    let got: Vec<u32> = match &out {
        ImplOut::Ok(v) => v.iter().map(|x| x.0).collect(),
        _ => return Some((false, vec![])),
    };
    let mut strict = dc.model_ids(ast, EDev::default())?;
    let mut g = got.clone();
    if has_desc(ast) {
        strict.sort();
        g.sort();
    }
    Some((strict == g, got))
}

/// One query over a document that packs many independent cells (e.g. one array element per operand pair):
/// a single evaluation decides all cells; on disagreement every cell is re-checked alone so that the
/// violation (or known finding) is recorded on a minimal document.
pub fn packed(
    run: &Run,
    acc: &mut Acc,
    q: &str,
    ast: &Query,
    cells: &[Value],
    wrap: &dyn Fn(Vec<Value>) -> Value,
    class: &str,
) -> Option<Vec<u32>> {
    let doc = wrap(cells.to_vec());
    let dc = DocCtx::new(&doc);
    packed_on(run, acc, q, ast, cells, wrap, class, &dc)
}

/// `packed` with the packed document already built (`dc.doc == wrap(cells)`)
pub fn packed_on(
    run: &Run,
    acc: &mut Acc,
    q: &str,
    ast: &Query,
    cells: &[Value],
    wrap: &dyn Fn(Vec<Value>) -> Value,
    class: &str,
    dc: &DocCtx,
) -> Option<Vec<u32>> {
    acc.evals += cells.len() as u64;
    acc.bump("packed_executions", 1);
    match agrees(q, ast, dc) {
        None => {
            acc.bump("skipped_outside_model", 1);
            None
        }
        Some((true, got)) => Some(got),
        Some((false, got)) => {
            let before = acc.viol_count + acc.known.values().map(|x| x.0).sum::<u64>();
            for c in cells {
                let d1 = wrap(vec![c.clone()]);
                let dc1 = DocCtx::new(&d1);
                check_case(run, acc, q, ast, &dc1, Mode::Nodes, class);
            }
            let after = acc.viol_count + acc.known.values().map(|x| x.0).sum::<u64>();
            if after == before {
                // only the packed document shows it
                check_case(run, acc, q, ast, dc, Mode::Nodes, class);
            }
            // the observation is still returned: model-independent oracles (algebraic laws) use it
            if got.iter().any(|i| *i == FABRICATED) {
                None
            } else {
                Some(got)
            }
        }
    }
}

/// replay of a case whose oracle is just the number of selected nodes
pub fn replay_plain(case: &Value, _run: &Run) -> Acc {
    let mut acc = Acc::new();
    let q = case["query"].as_str().unwrap_or("$");
    let doc = &case["doc"];
    let dc = DocCtx::new(doc);
    let out = imp::run_with_path(q, doc, &dc.am);
    println!("document : {}", doc);
    println!("query    : {}", q);
    println!("observed : {:?}", out);
    println!("expected : {} node(s)", case["expect_count"]);
    let n = case["expect_count"].as_u64().unwrap_or(0) as usize;
    match out {
        ImplOut::Ok(v) if v.len() == n => {}
        other => acc.viol(format!("{} on {}: expected {} node(s), got {}", q, doc, n, other.short()), case.clone()),
    }
    acc
}
