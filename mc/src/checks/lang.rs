//! C06 / C07 / C08 (parser side): exhaustive language enumeration. Every enumerated string is classified by
//! the RFC recogniser of the reference model and by the real parser; C08 additionally evaluates every
//! accepted string on a document panel through the three public entry points.

use crate::acc::{Acc, Run};
use crate::gen::lex::{tokenize, TOKENS};
use crate::gen::sentences;
use crate::imp::{self, AddrMap};
use crate::model::parse::{rfc_parse, rfc_parse_dev, PDev};
use crate::model::render;
use rayon::prelude::*;
use serde_json::{json, Value};
use std::collections::HashSet;
use std::sync::Mutex;

#[derive(Clone, Copy, PartialEq, Eq, Debug)]
pub enum Verdict {
    Valid,
    Invalid,
    DontCare,
}

pub fn classify(s: &str) -> Verdict {
    match rfc_parse(s) {
        Ok((_, info)) => {
            if info.unknown_fn || info.big_literal {
                Verdict::DontCare
            } else {
                Verdict::Valid
            }
        }
        Err(_) => Verdict::Invalid,
    }
}

pub struct Seen {
    shards: Vec<Mutex<HashSet<u64>>>,
}

impl Seen {
    pub fn new() -> Seen {
        Seen { shards: (0..256).map(|_| Mutex::new(HashSet::new())).collect() }
    }
    /// true when the string was not seen before
    pub fn insert(&self, s: &str) -> bool {
        let h = crate::acc::fnv(s);
        self.shards[(h >> 56) as usize].lock().unwrap().insert(h)
    }
}

pub struct Lang<'a> {
    pub run: &'a Run,
    pub seen: Seen,
    pub panel: Vec<(Value, AddrMap)>,
}

pub fn eval_panel() -> Vec<Value> {
    vec![
        json!(1),
        json!("a"),
        json!(null),
        json!([]),
        json!({}),
        json!([1, 2, 3]),
        json!({"a": 1, "b": [1, 2], "p": "a"}),
        json!([{"a": "x", "b": 1}, {"a": [1], "c": null}, [1, [2]], "s"]),
        json!({"a": {"a": {"a": [{"a": 1}]}}}),
        json!([0, 1, 2, 3, 4, 5, 6, 7, 8, 9, 10, 11, 12, 13, 14, 15, 16, 17, 18, 19]),
        json!([[], {}, "", 0, false, null]),
        json!({"p": "(", "a": "(", "b": "x"}),
        json!({"a": [0, 1, 2, 3, 4, 5, 6, 7, 8, 9, 10, 11, 12, 13, 14, 15, 16, [17, {"a": 18}]], "'a'": 1, "\\u": 2, "": 3, "0": {"1": [[]]}, "u": "\\", "1": -9223372036854775808i64, "b": 18446744073709551615u64}),
    ]
}

const RING: usize = 4096;

thread_local! {
    /// the strings this worker thread examined most recently (a violation that depends on earlier parses on the
    /// same thread is only reproducible together with them)
    static RECENT: std::cell::RefCell<(Vec<String>, usize)> = std::cell::RefCell::new((Vec::new(), 0));
}

fn remember(s: &str) {
    RECENT.with(|r| {
        let mut r = r.borrow_mut();
        let i = r.1 % RING;
        if r.0.len() < RING {
            r.0.push(s.to_string());
        } else {
            r.0[i].clear();
            r.0[i].push_str(s);
        }
        r.1 += 1;
    })
}

fn recent_history() -> Vec<String> {
    RECENT.with(|r| {
        let r = r.borrow();
        let n = r.0.len();
        let mut v = Vec::with_capacity(n);
        // oldest first; the last entry is the string under examination itself and is dropped
        for k in 0..n {
            let idx = if n < RING { k } else { (r.1 + k) % RING };
            v.push(r.0[idx].clone());
        }
        v.pop();
        v
    })
}

impl<'a> Lang<'a> {
    pub fn new(run: &'a Run) -> Lang<'a> {
        let panel = if run.prop == "C08" { eval_panel().into_iter().map(|d| {
            let am = AddrMap::new(&d);
            (d, am)
        }).collect() } else { vec![] };
        Lang { run, seen: Seen::new(), panel }
    }

    fn case(&self, s: &str, space: &str, model: Verdict, accepted: Option<bool>) -> Value {
        json!({"kind": "parse", "class": space, "string": s, "model": format!("{:?}", model), "implementation_accepts": accepted, "history": recent_history()})
    }

    /// `near_miss`: the string comes from a space of near-misses by construction (edits, families)
    pub fn examine(&self, acc: &mut Acc, s: &str, space: &str, near_miss: bool) {
        acc.evals += 1;
        remember(s);
        let prop = self.run.prop.as_str();
        let parsed = imp::parse(s);
        let accepted = match &parsed {
            Ok(Ok(_)) => Some(true),
            Ok(Err(_)) => Some(false),
            Err(_) => None,
        };
        if prop == "C08" {
            match &parsed {
                Err(p) => {
                    acc.viol(format!("parse_json_path({:?}) panicked: {}", s, p), json!({"kind": "parse", "class": space, "string": s, "history": recent_history()}));
                    return;
                }
                Ok(Err(_)) => return,
                Ok(Ok(jq)) => {
                    if self.seen.insert(s) {
                        acc.nontrivial += 1;
                    }
                    for (doc, am) in &self.panel {
                        acc.bump("evaluations_of_accepted_strings", 3);
                        let a = imp::run_with_path(s, doc, am);
                        let b = imp::run_parsed(jq, doc, am);
                        let c = imp::run_query(s, doc, am);
                        let d = imp::run_only_path(s, doc);
                        let bad = match (&a, &b, &c, &d) {
                            (imp::ImplOut::Ok(_), imp::ImplOut::Ok(_), Ok(Ok(_)), Ok(Ok(_))) => None,
                            _ => Some(format!(
                                "query_with_path: {} ; js_path_process: {} ; query: {} ; query_only_path: {}",
                                a.short(),
                                b.short(),
                                match &c {
                                    Ok(Ok(v)) => format!("Ok({})", v.len()),
                                    Ok(Err(e)) => format!("Err({})", e),
                                    Err(p) => format!("PANIC({})", p),
                                },
                                match &d {
                                    Ok(Ok(v)) => format!("Ok({})", v.len()),
                                    Ok(Err(e)) => format!("Err({})", e),
                                    Err(p) => format!("PANIC({})", p),
                                }
                            )),
                        };
                        if let Some(b) = bad {
                            acc.viol(
                                format!("the parser accepts {:?} but evaluating it on {} does not succeed: {}", s, doc, b),
                                json!({"kind": "parse-eval", "class": space, "string": s, "doc": doc, "history": recent_history()}),
                            );
                            return;
                        }
                    }
                }
            }
            return;
        }
        let accepted = match accepted {
            Some(a) => a,
            None => return, // a panic is C08's finding
        };
        let v = classify(s);
        match (prop, v) {
            ("C06", Verdict::Valid) => {
                if self.seen.insert(s) {
                    acc.nontrivial += 1;
                    acc.sample(|| json!({"string": s, "space": space, "verdict": "valid, accepted"}));
                }
                if !accepted {
                    acc.viol(
                        format!("valid RFC 9535 query rejected: {:?} ({})", s, match &parsed {
                            Ok(Err(e)) => e.lines().last().unwrap_or("").trim().to_string(),
                            _ => String::new(),
                        }),
                        self.case(s, space, v, Some(accepted)),
                    );
                }
            }
            ("C07", Verdict::Invalid) => {
                if near_miss && self.seen.insert(s) {
                    acc.nontrivial += 1;
                    acc.sample(|| json!({"string": s, "space": space, "verdict": "invalid, rejected"}));
                }
                if accepted {
                    // licensed recogniser deviations
                    if self.run.findings.allowed("C07", "no_function_typecheck").is_some() {
                        let dev = PDev { no_function_typecheck: true };
                        if rfc_parse_dev(s, dev).is_ok() {
                            let id = self.run.findings.allowed("C07", "no_function_typecheck").unwrap().to_string();
                            acc.known(&id, || format!("{:?}", s));
                            return;
                        }
                    }
                    acc.viol(
                        format!("string outside RFC 9535 accepted: {:?} (recogniser: {})", s, rfc_parse(s).err().map(|e| format!("{} at {}", e.msg, e.pos)).unwrap_or_default()),
                        self.case(s, space, v, Some(accepted)),
                    );
                }
            }
            (_, Verdict::DontCare) => acc.bump("dont_care_strings", 1),
            _ => {}
        }
    }
}

/// space 1: every concatenation of up to n tokens after `$`
fn token_space(l: &Lang, n: usize) -> Acc {
    // parallel over the first two tokens
    let firsts: Vec<(usize, usize)> = (0..TOKENS.len()).flat_map(|a| (0..TOKENS.len()).map(move |b| (a, b))).collect();
    let mut acc = Acc::new();
    l.examine(&mut acc, "$", "tokens", false);
    for t in TOKENS {
        l.examine(&mut acc, &format!("${}", t), "tokens", false);
    }
    let rest = firsts
        .par_iter()
        .map(|(a, b)| {
            let mut acc = Acc::new();
            let mut buf = String::with_capacity(64);
            buf.push('$');
            buf.push_str(TOKENS[*a]);
            buf.push_str(TOKENS[*b]);
            l.examine(&mut acc, &buf, "tokens", false);
            fn rec(l: &Lang, acc: &mut Acc, buf: &mut String, left: usize) {
                if left == 0 {
                    return;
                }
                for t in TOKENS {
                    let len = buf.len();
                    buf.push_str(t);
                    l.examine(acc, buf, "tokens", false);
                    rec(l, acc, buf, left - 1);
                    buf.truncate(len);
                }
            }
            if n > 2 {
                rec(l, &mut acc, &mut buf, n - 2);
            }
            acc
        })
        .reduce(Acc::new, Acc::merge);
    acc.merge(rest)
}

pub const CHARS: [char; 27] = [
    '$', '@', '.', '[', ']', '*', ',', ':', '?', '!', '(', ')', '&', '|', '=', '<', '\'', '"', '\\', 'a', 'u', '1', '0', '-', ' ', '\t', '\u{a0}',
];

/// space 2: every string of up to n characters over the raw character alphabet
fn char_space(l: &Lang, n: usize) -> Acc {
    let firsts: Vec<(usize, usize)> = (0..CHARS.len()).flat_map(|a| (0..CHARS.len()).map(move |b| (a, b))).collect();
    let mut acc = Acc::new();
    l.examine(&mut acc, "", "chars", false);
    for c in CHARS {
        l.examine(&mut acc, &c.to_string(), "chars", false);
    }
    let rest = firsts
        .par_iter()
        .map(|(a, b)| {
            let mut acc = Acc::new();
            let mut buf = String::new();
            buf.push(CHARS[*a]);
            buf.push(CHARS[*b]);
            l.examine(&mut acc, &buf, "chars", false);
            fn rec(l: &Lang, acc: &mut Acc, buf: &mut String, left: usize) {
                if left == 0 {
                    return;
                }
                for c in CHARS {
                    let len = buf.len();
                    buf.push(c);
                    l.examine(acc, buf, "chars", false);
                    rec(l, acc, buf, left - 1);
                    buf.truncate(len);
                }
            }
            if n > 2 {
                rec(l, &mut acc, &mut buf, n - 2);
            }
            acc
        })
        .reduce(Acc::new, Acc::merge);
    acc.merge(rest)
}

const BLANKS: [&str; 4] = [" ", "\t", "\n", "\r"];

/// spaces 3 and 5: generated sentences, their blank-space variants and every single-token edit
fn sentence_space(l: &Lang, thorough: bool) -> Acc {
    let sents = sentences::sentences(thorough);
    let max_edit_tokens = if thorough { 40 } else { 24 };
    sents
        .par_iter()
        .map(|q| {
            let mut acc = Acc::new();
            let s = render::query(q);
            l.examine(&mut acc, &s, "sentences", true);
            acc.bump("sentences", 1);
            let toks = tokenize(&s);
            debug_assert_eq!(toks.concat(), s);
            // a blank at every token boundary and inside every multi-character token (the recogniser decides which are legal)
            let mut buf = String::new();
            for i in 1..toks.len() {
                for b in BLANKS {
                    buf.clear();
                    for (k, t) in toks.iter().enumerate() {
                        if k == i {
                            buf.push_str(b);
                        }
                        buf.push_str(t);
                    }
                    l.examine(&mut acc, &buf, "blank at one boundary", true);
                }
            }
            for (i, t) in toks.iter().enumerate() {
                let cs: Vec<char> = t.chars().collect();
                if cs.len() > 1 {
                    for cut in 1..cs.len() {
                        buf.clear();
                        for (k, t2) in toks.iter().enumerate() {
                            if k == i {
                                buf.extend(cs[..cut].iter());
                                buf.push(' ');
                                buf.extend(cs[cut..].iter());
                            } else {
                                buf.push_str(t2);
                            }
                        }
                        l.examine(&mut acc, &buf, "blank inside a token", true);
                    }
                }
            }
            // blanks at every boundary at once: only boundaries where a single blank was legal
            {
                let mut legal = vec![false; toks.len() + 1];
                for i in 1..toks.len() {
                    buf.clear();
                    for (k, t) in toks.iter().enumerate() {
                        if k == i {
                            buf.push(' ');
                        }
                        buf.push_str(t);
                    }
                    legal[i] = classify(&buf) == Verdict::Valid;
                }
                for fill in [" ", "\n\t", "\r \n"] {
                    buf.clear();
                    for (k, t) in toks.iter().enumerate() {
                        if legal[k] {
                            buf.push_str(fill);
                        }
                        buf.push_str(t);
                    }
                    l.examine(&mut acc, &buf, "blanks at every legal boundary", true);
                }
            }
            if toks.len() <= max_edit_tokens {
                // deletions
                for i in 0..toks.len() {
                    buf.clear();
                    for (k, t) in toks.iter().enumerate() {
                        if k != i {
                            buf.push_str(t);
                        }
                    }
                    l.examine(&mut acc, &buf, "edit: deletion", true);
                }
                // transpositions
                for i in 0..toks.len().saturating_sub(1) {
                    buf.clear();
                    for k in 0..toks.len() {
                        let j = if k == i { i + 1 } else if k == i + 1 { i } else { k };
                        buf.push_str(&toks[j]);
                    }
                    l.examine(&mut acc, &buf, "edit: transposition", true);
                }
                // insertions and substitutions
                for i in 0..=toks.len() {
                    for ins in TOKENS {
                        buf.clear();
                        for (k, t) in toks.iter().enumerate() {
                            if k == i {
                                buf.push_str(ins);
                            }
                            buf.push_str(t);
                        }
                        if i == toks.len() {
                            buf.push_str(ins);
                        }
                        if l.seen_or_count(&buf) {
                            l.examine(&mut acc, &buf, "edit: insertion", true);
                        }
                        if i < toks.len() && toks[i] != ins {
                            buf.clear();
                            for (k, t) in toks.iter().enumerate() {
                                if k == i {
                                    buf.push_str(ins);
                                } else {
                                    buf.push_str(t);
                                }
                            }
                            if l.seen_or_count(&buf) {
                                l.examine(&mut acc, &buf, "edit: substitution", true);
                            }
                        }
                    }
                }
            }
            acc
        })
        .reduce(Acc::new, Acc::merge)
}

impl<'a> Lang<'a> {
    /// edits of different sentences coincide often; a second set keeps them from being re-examined
    fn seen_or_count(&self, _s: &str) -> bool {
        true
    }
}

/// the function-call texts of the function-nesting family: (level 1, level 2, arity variants)
pub fn fn_nesting_calls() -> (Vec<String>, Vec<String>, Vec<String>) {
    let fns = ["length", "count", "value", "match", "search"];
    let arity = |f: &str| if f == "match" || f == "search" { 2 } else { 1 };
    let simple: Vec<String> = ["1", "'a'", "null", "@.a", "@['a'][0]", "$.a", "@", "@.*", "@..a", "@[0,1]", "@[?@.a]", "@.a==1", "(@.a)", "!@.a", "@.a&&@.b", "!(!@.a)", "!(!@.*)", "(!@.a)", "((@.a))", "!((@.a))", "(!(!@.a))", "!(!(!(!@.*)))", "! ( ! @.a )", "(@.*)", "(@.a==1)", "!(@.a==1)", "(@[9007199254740992]==1)", "!(@.b in 1)", "(length(@.a,@.b)==1)", "(count(1)>0)", "!(@.a==9007199254740993)", "((length(@.a)))", "(match(@.a))"].iter().map(|s| s.to_string()).collect();
    let mut level1: Vec<String> = vec![];
    for f in fns {
        if arity(f) == 1 {
            for a in &simple {
                level1.push(format!("{}({})", f, a));
            }
        } else {
            for a in &simple {
                for b in ["'x'", "@.b", "@.*", "1"] {
                    level1.push(format!("{}({},{})", f, a, b));
                }
            }
            for b in &simple {
                level1.push(format!("{}(@.a,{})", f, b));
            }
        }
    }
    let mut level2: Vec<String> = vec![];
    for f in fns {
        for inner in &level1 {
            if arity(f) == 1 {
                level2.push(format!("{}({})", f, inner));
            } else {
                level2.push(format!("{}({},'x')", f, inner));
                level2.push(format!("{}(@.a,{})", f, inner));
            }
        }
    }
    // surplus and missing arguments: every call of level 1 with one more argument of every kind (valid or not),
    // appended or prepended, and every call with its last argument removed
    let mut arity: Vec<String> = vec![];
    for call in &level1 {
        let inner = &call[..call.len() - 1];
        for extra in simple.iter().chain(level1.iter().take(60)) {
            arity.push(format!("{},{})", inner, extra));
        }
        if let Some(open) = call.find('(') {
            for extra in ["1", "@.a", "@.*", "length(@.*)", "count(1)", "@[9007199254740992]"] {
                arity.push(format!("{}({},{}", &call[..open], extra, &call[open + 1..]));
            }
        }
    }
    for f in fns {
        arity.push(format!("{}()", f));
        arity.push(format!("{}(@.a,@.b,@.c)", f));
    }
    (level1, level2, arity)
}

/// space 4: one-position families
fn families(l: &Lang, thorough: bool) -> Acc {
    let mut acc = Acc::new();
    let bs = '\\';
    let mut xs: Vec<String> = vec![];
    for cp in [0x00u32, 0x08, 0x09, 0x0a, 0x0d, 0x1f, 0x20, 0x21, 0x22, 0x23, 0x26, 0x27, 0x28, 0x2f, 0x5b, 0x5c, 0x5d, 0x7f, 0x80, 0x85, 0xa0, 0x2028, 0x3000, 0xd7ff, 0xe000, 0xfeff, 0xffff, 0x10000, 0x10ffff] {
        xs.push(char::from_u32(cp).unwrap().to_string());
    }
    for e in ["b", "f", "n", "r", "t", "/", "\\", "'", "\"", "a", "x", "0", "u", " ", "U0041"] {
        xs.push(format!("{}{}", bs, e));
    }
    let hexes = ["0041", "004a", "004A", "00e9", "00E9", "00eF", "abcd", "ABCD", "AbCd", "d7ff", "D7FF", "e000", "E000", "ffff", "FFFF", "0000", "001f", "12", "123", "12345", "00g0", "+041", " 041", "D800", "d800", "DBFF", "DC00", "dc00", "DFFF"];
    for h in hexes {
        xs.push(format!("{}u{}", bs, h));
    }
    for hi in ["D800", "d800", "D834", "d834", "DBFF", "dbff", "DC00", "D7FF", "E000"] {
        for lo in ["DC00", "dc00", "DD1E", "dd1e", "DFFF", "dfff", "D800", "DBFF", "E000", "0041"] {
            xs.push(format!("{}u{}{}u{}", bs, hi, bs, lo));
            xs.push(format!("{}u{}{}", bs, hi, lo));
            xs.push(format!("{}u{} {}u{}", bs, hi, bs, lo));
        }
    }
    xs.push(String::new());
    let carriers: Vec<Box<dyn Fn(&str) -> String>> = vec![
        Box::new(|x| format!("$['{}']", x)),
        Box::new(|x| format!("$[\"{}\"]", x)),
        Box::new(|x| format!("$['a{}b']", x)),
        Box::new(|x| format!("$.{}", x)),
        Box::new(|x| format!("$.a{}", x)),
        Box::new(|x| format!("$.{}a", x)),
        Box::new(|x| format!("$..{}", x)),
        Box::new(|x| format!("$[?@.a=='{}']", x)),
        Box::new(|x| format!("$[?@.a==\"{}\"]", x)),
        Box::new(|x| format!("$[?@['{}']==1]", x)),
        Box::new(|x| format!("$[?match(@.a,'{}')]", x)),
        Box::new(|x| format!("$[?length('{}')==1]", x)),
        Box::new(|x| format!("$[?search(\"{}\",@.a)]", x)),
        Box::new(|x| format!("$[?$['{}']]", x)),
        Box::new(|x| format!("$..['{}']", x)),
        Box::new(|x| format!("$[0,'{}']", x)),
        Box::new(|x| format!("$[?count(@['{}'])==1]", x)),
        Box::new(|x| format!("${}", x)),
        Box::new(|x| format!("{}$", x)),
        Box::new(|x| format!("$[0]{}", x)),
        Box::new(|x| format!("$[{}0]", x)),
        Box::new(|x| format!("$[0{}]", x)),
        Box::new(|x| format!("$[?@.a{}==1]", x)),
        Box::new(|x| format!("$[?@.a=={}1]", x)),
    ];
    for c in &carriers {
        for x in &xs {
            l.examine(&mut acc, &c(x), "family: characters and escapes", true);
        }
    }
    // integers and numbers
    let mut ints: Vec<String> = ["0", "-0", "00", "01", "-1", "-01", "1", "10", "1.", ".5", "1.0", "1e2", "1E2", "1E+2", "1e-2", "1.5e-2", "1e", "1e+", "+1", "--1", "- 1", "1 0", "0x10", "1_0", "١", "1e400", "1E309", "-1.5e+309", "1e308", "1.7976931348623157e308", "1e-400", "0e400", "-0e400", "0.1e400",
        "123456789012345678901234567890.5", "1.0000000000000000000000000000001", "1e00", "1e+00", "1e-0", "0.0", "-0.0", "0e0"]
        .into_iter()
        .map(String::from)
        .collect();
    for v in [9007199254740991i128, 9007199254740992, 9007199254740993, 9223372036854775807, 9223372036854775808, 18446744073709551616, 99999999999999999999999] {
        ints.push(v.to_string());
        ints.push(format!("-{}", v));
    }
    if thorough {
        for v in [9007199254740990i128, 4503599627370496, 1000000000000000000000, 9223372036854775806] {
            ints.push(v.to_string());
            ints.push(format!("-{}", v));
        }
    }
    let icar: Vec<Box<dyn Fn(&str) -> String>> = vec![
        Box::new(|x| format!("$[{}]", x)),
        Box::new(|x| format!("$[{}:]", x)),
        Box::new(|x| format!("$[:{}]", x)),
        Box::new(|x| format!("$[::{}]", x)),
        Box::new(|x| format!("$[1:{}:2]", x)),
        Box::new(|x| format!("$[0,{}]", x)),
        Box::new(|x| format!("$..[{}]", x)),
        Box::new(|x| format!("$[?@[{}]==1]", x)),
        Box::new(|x| format!("$[?$[{}]==1]", x)),
        Box::new(|x| format!("$[?@.a[{}]]", x)),
        Box::new(|x| format!("$[?@.a[{}]==1]", x)),
        Box::new(|x| format!("$[?@.a=={}]", x)),
        Box::new(|x| format!("$[?{}<@.a]", x)),
        Box::new(|x| format!("$[?length(@.a)=={}]", x)),
        Box::new(|x| format!("$[?@[0:{}]]", x)),
        Box::new(|x| format!("$[{}::0]", x)),
        Box::new(|x| format!("$[:{}:0]", x)),
        Box::new(|x| format!("$[{}:{}:0]", x, x)),
        Box::new(|x| format!("$[{}::-1]", x)),
        Box::new(|x| format!("$[0:{}:1]", x)),
        Box::new(|x| format!("$[{}:0]", x)),
        Box::new(|x| format!("$[0:0:{}]", x)),
        Box::new(|x| format!("$[?@[{}::0]]", x)),
        Box::new(|x| format!("$[?count(@[:{}:0])==0]", x)),
        Box::new(|x| format!("$[1,{}::0]", x)),
        Box::new(|x| format!("$[?length({})==1]", x)),
        Box::new(|x| format!("$[?match({},'a')]", x)),
        Box::new(|x| format!("$[?search('a',{})]", x)),
        Box::new(|x| format!("$[?count(@[{}])==1]", x)),
        Box::new(|x| format!("$[?length(@[{}])==1]", x)),
        Box::new(|x| format!("$[?value(@..[{}])==1]", x)),
        Box::new(|x| format!("$[?@[{}:]]", x)),
        Box::new(|x| format!("$[?{}==@.a]", x)),
    ];
    for c in &icar {
        for x in &ints {
            l.examine(&mut acc, &c(x), "family: integers and numbers", true);
        }
    }
    // keywords, operators, function names
    let words = [
        "true", "false", "null", "True", "TRUE", "nul", "nulll", "truee", "tru", "length", "count", "match", "search", "value", "Length", "len", "in", "nin", "size", "noneOf", "anyOf", "subsetOf", "empty", "exists",
    ];
    for w in words {
        for c in [
            format!("$[?@.a=={}]", w),
            format!("$[?{}==@.a]", w),
            format!("$[?{}]", w),
            format!("$[?{}(@.a)]", w),
            format!("$[?{}(@.a)==1]", w),
            format!("$[?{}(@.a,'a')]", w),
            format!("$[?{}(@.a,'a')==1]", w),
            format!("$[?{}(@.*)==1]", w),
            format!("$[?{}(@.*)]", w),
            format!("$[?@.a {} 1]", w),
            format!("$[?@.a {} [1]]", w),
            format!("$.{}", w),
            format!("$[{}]", w),
        ] {
            l.examine(&mut acc, &c, "family: keywords and function names", true);
        }
    }
    // syntax inside strings: string contents that look like query syntax, in every place a string can stand
    {
        let frags = [
            "..", ".. ", " ..", "a.. b", "a..b", ". .", "[", "]", "[0]", "['a']", "?", "?@", "*", "@", "$", "$.a", "&&", "||", "==", "!=", "<", ",", ":", "1:2", "(", ")", "()", "!", "!@.a", "a,b", " ", "  ", " a", "a ",
            "length(@)", "true", "null", "1", "-1", "1e2", "\\", "\\\\", "/", "#", "%", "{", "}", "\u{7f}", "\u{80}", "\u{a0}", "\u{2028}",
        ];
        for f in frags {
            let sq = render::quote_single(f);
            let dq = render::quote_double(f);
            for lit in [&sq, &dq] {
                for c in [
                    format!("$[{}]", lit),
                    format!("$..[{}]", lit),
                    format!("$[0,{}]", lit),
                    format!("$..[0,{},*]", lit),
                    format!("$.a[{}].b", lit),
                    format!("$[?@.a=={}]", lit),
                    format!("$..[?@.a=={}]", lit),
                    format!("$..[?{}!=@[{}]]", lit, lit),
                    format!("$[?search(@.a,{})]", lit),
                    format!("$..[?match(@[{}],{})]", lit, lit),
                    format!("$[?@[{}]]", lit),
                    format!("$..[?@..[{}]]", lit),
                    format!("$[?length({})==1]", lit),
                    format!("$..a[?@.b=={}&&@..c]", lit),
                ] {
                    l.examine(&mut acc, &c, "family: query syntax inside string literals", true);
                }
            }
        }
    }
    // length ladder: names and literals of growing length built from 1-, 2-, 3- and 4-byte characters, with 0..3
    // bytes of ASCII padding, in accepting and in rejecting contexts (error paths that echo the offending text)
    {
        let units = ["a", "\u{e9}", "\u{540d}", "\u{1d11e}"];
        let maxn = if thorough { 140 } else { 72 };
        for u in units {
            for pad in ["", "x", "xy", "xyz"] {
                for n in 1..=maxn {
                    let x = format!("{}{}", pad, u.repeat(n));
                    for c in [
                        format!("$.{}", x),
                        format!("$['{}']", x),
                        format!("$[?@.{}]", x),
                        format!("$[?@.a=='{}']", x),
                        format!("$[?match(@.{},'a')]", x),
                        format!("$[?match(@.{},'a')==true]", x),
                        format!("$[?count(@.{})]", x),
                        format!("$[?length(@['{}'])]", x),
                        format!("$[?value(@..{})]", x),
                        format!("$[?length(@.{}.*)==1]", x),
                        format!("$[?foo(@.{})==1]", x),
                        format!("$[?@.{} in 1]", x),
                        format!("$[?@['{}'].*==1]", x),
                        format!("$.{}[01]", x),
                    ] {
                        l.examine(&mut acc, &c, "family: length ladder with multi-byte characters", true);
                    }
                }
            }
        }
    }
    // function nestings: every argument kind in every parameter position of the five functions, two levels deep,
    // in every context a function expression can appear in
    {
        let (level1, level2, arity) = fn_nesting_calls();
        for call in level1.iter().chain(level2.iter()).chain(arity.iter()) {
            for c in [format!("$[?1==2&&{}]", call), format!("$[?'a'!='a'&&({})]", call), format!("$[?1==1||{}]", call), format!("$[?{}]", call), format!("$[?!{}]", call), format!("$[?{}==1]", call), format!("$[?true!={}]", call), format!("$[?({})||@.z]", call), format!("$[?{}=={}]", call, call)] {
                l.examine(&mut acc, &c, "family: function nestings", true);
            }
        }
    }
    // string contents over an alphabet of escape-level tokens: every sequence of up to k tokens inside a quoted
    // string, in every place a string can stand (what follows an escaped backslash is ordinary text; what follows a
    // lone backslash is an escape; surrogate escapes need their partner)
    {
        let toks: [&str; 14] = ["\\\\", "u", "D83D", "DE00", "0041", "\\uD83D", "\\uDE00", "\\u0041", "a", "\u{e9}", "\\n", "\\", "12", "\\/"];
        let k = if thorough { 4 } else { 3 };
        let mut seqs: Vec<String> = vec![String::new()];
        let mut level: Vec<String> = vec![String::new()];
        for _ in 0..k {
            let mut next = vec![];
            for p in &level {
                for t in toks {
                    next.push(format!("{}{}", p, t));
                }
            }
            seqs.extend(next.iter().cloned());
            level = next;
        }
        let part = seqs
            .par_iter()
            .map(|x| {
                let mut acc = Acc::new();
                for c in [
                    format!("$['{}']", x),
                    format!("$[\"{}\"]", x),
                    format!("$.b['{}']", x),
                    format!("$[?@.a=='{}']", x),
                    format!("$[?@[\"{}\"]==1]", x),
                    format!("$[?search(@.a,'{}')]", x),
                ] {
                    l.examine(&mut acc, &c, "family: escape-token sequences inside strings", true);
                }
                acc
            })
            .reduce(Acc::new, Acc::merge);
        acc = acc.merge(part);
    }
    // function arguments: every slice of a small cube and every small index, in each parameter position and at
    // several places of the argument query (a ValueType parameter takes a singular query: names and indices only)
    {
        let b: Vec<String> = ["", "-2", "-1", "0", "1", "2", "3"].iter().map(|s| s.to_string()).collect();
        let st: Vec<String> = ["", ":", ":-1", ":1", ":2"].iter().map(|s| s.to_string()).collect();
        let mut sels: Vec<String> = vec![];
        for a in &b {
            for e in &b {
                for t in &st {
                    sels.push(format!("{}:{}{}", a, e, t));
                }
            }
        }
        for i in ["-2", "-1", "0", "1", "2", "0,1", "0,0", "*", "'a'", "?@"] {
            sels.push(i.to_string());
        }
        for sel in &sels {
            for arg in [format!("@[{}]", sel), format!("@.a[{}]", sel), format!("$[{}]", sel), format!("@[{}].b", sel), format!("@[0][{}]", sel)] {
                for call in [
                    format!("length({})==1", arg),
                    format!("match({},'a')", arg),
                    format!("search(@.b,{})", arg),
                    format!("count({})==1", arg),
                    format!("value({})==1", arg),
                    format!("length(value({}))==1", arg),
                    format!("{}==1", arg),
                    format!("{}", arg),
                ] {
                    l.examine(&mut acc, &format!("$[?{}]", call), "family: slices and indices in function arguments", true);
                }
            }
        }
    }
    // bracketed selections inside filters inside bracketed selections (the conversion of the outer list is suspended
    // while the inner one is converted)
    {
        // ... including inner selections of exactly one selector in the places that demand a singular query (an inner
        // selection that picks up anything from the suspended outer one stops being singular)
        let inner = [
            "@[0,1]", "@['a','b']", "@[1:2,0]", "count(@[0,1])==2", "@[?@[0,1]]", "@[0,?@[1,2],3]", "$[0,1]", "@[0,1][2,3]",
            "@['a']", "!@[0]", "@['a']==1", "@[0]==$['a']", "length(@['a'])>1", "match(@[0],'b')", "search(@.b[\"a\"],@[0])", "count(@['a'])==1", "value(@[0])==1", "length(@.b['a'])>=1",
        ];
        for a in inner {
            for b in inner {
                for c in [format!("$[0,?{},1]", a), format!("$[?{},?{}]", a, b), format!("$['x',?{}&&{},2:3]", a, b), format!("$..[?{},*,?{}]", a, b), format!("$[?{}][?{},0]", a, b)] {
                    l.examine(&mut acc, &c, "family: selections nested in filters nested in selections", true);
                }
            }
        }
    }
    // every pair of function calls of the first nesting level on the two sides of a comparison (each side must be a
    // ValueType function on its own: a check that looks at one side only lets the other through)
    {
        let (level1, _, _) = fn_nesting_calls();
        let part = level1
            .par_iter()
            .map(|a| {
                let mut acc = Acc::new();
                for b in &level1 {
                    l.examine(&mut acc, &format!("$[?{}=={}]", a, b), "family: function calls on both sides of a comparison", true);
                }
                l.examine(&mut acc, &format!("$[?{}<1]", a), "family: function calls on both sides of a comparison", true);
                l.examine(&mut acc, &format!("$[?1>={}]", a), "family: function calls on both sides of a comparison", true);
                acc
            })
            .reduce(Acc::new, Acc::merge);
        acc = acc.merge(part);
    }
    // multi-byte characters before a function expression, with a blank at every place the grammar allows one in and
    // around the call (byte offsets and character positions part ways after the first multi-byte character)
    {
        let templates = ["[?length(~@.a~)~>~1~]", "[?~match(~@.a~,~'x'~)~]", "[?count(~@.*~)~==~1~&&~search(~@.b~,~'y'~)]", "[?~value(~@.a~)~==~'\u{e9}'~||~!~match(~@.b~,~\"z\"~)~]", "[?@.c~==~1~&&~length(~value(~@.*~)~)~<~3]"];
        let mut prefixes: Vec<String> = vec![];
        for k in 0..=8 {
            prefixes.push(format!("$.{}a", "\u{e9}".repeat(k)));
            prefixes.push(format!("$['{}']", "\u{1d11e}".repeat(k)));
            prefixes.push(format!("$[?@.n=='{}']..a", "\u{540d}".repeat(k)));
        }
        for p in &prefixes {
            for t in templates {
                let sites = t.matches('~').count();
                // no blank, one blank at each site, a blank at every site, two blanks at each site
                l.examine(&mut acc, &format!("{}{}", p, t.replace('~', "")), "family: multi-byte prefix before a function expression", true);
                l.examine(&mut acc, &format!("{}{}", p, t.replace('~', " ")), "family: multi-byte prefix before a function expression", true);
                for s in 0..sites {
                    for blank in [" ", "  ", "\t"] {
                        let mut k = 0;
                        let text: String = t
                            .chars()
                            .map(|c| {
                                if c == '~' {
                                    k += 1;
                                    if k - 1 == s {
                                        blank.to_string()
                                    } else {
                                        String::new()
                                    }
                                } else {
                                    c.to_string()
                                }
                            })
                            .collect();
                        l.examine(&mut acc, &format!("{}{}", p, text), "family: multi-byte prefix before a function expression", true);
                    }
                }
            }
        }
    }
    for op in ["==", "!=", "<", "<=", ">", ">=", "=", "===", "<>", "!", "=<", "=>", "~=", "=~", "&&", "||", "&", "|", "and", "or", "not"] {
        for c in [format!("$[?@.a{}1]", op), format!("$[?@.a {} 1]", op), format!("$[?@.a{}@.b]", op), format!("$[?@.a {} @.b]", op), format!("$[?{}@.a]", op), format!("$[?{} @.a]", op)] {
            l.examine(&mut acc, &c, "family: operators", true);
        }
    }
    acc
}

/// nesting constructs of the filter language at depth d (all valid RFC 9535 when the recogniser says so)
pub fn nest(construct: &str, d: usize) -> String {
    fn rec(d: usize, base: &str, wrap: &dyn Fn(&str) -> String) -> String {
        let mut s = base.to_string();
        for _ in 0..d {
            s = wrap(&s);
        }
        s
    }
    match construct {
        "parens" => format!("$[?{}@.a{}]", "(".repeat(d), ")".repeat(d)),
        "not-parens" => format!("$[?{}@.a{}]", "!(".repeat(d), ")".repeat(d)),
        "nested-filters" => format!("$[?@{}.a{}]", "[?@".repeat(d), "]".repeat(d)),
        "length-of-value" => format!("$[?{}==1]", rec(d, "@.a", &|x| format!("length(value({}))", if x.starts_with('@') { x.to_string() } else { format!("@[?{}==1]", x) }))),
        "match-over-filter" => format!("$[?{}]", rec(d, "@.a", &|x| format!("match(value(@[?{}]),'a')", x))),
        "search-over-filter" => format!("$[?{}]", rec(d, "@.a", &|x| format!("search(value(@[?{}]), 'a')", x))),
        "count-over-filter" => format!("$[?{}]", rec(d, "@.a", &|x| format!("count(@[?{}])>0", x))),
        "test-and-group" => format!("$[?{}]", rec(d, "@.a", &|x| format!("(match(@.a,'a')&&{})", x))),
        "or-chain" => format!("$[?@.a{}]", "||@.a".repeat(d)),
        "and-chain" => format!("$[?@.a{}]", "&&@.b==1".repeat(d)),
        "union" => format!("$[0{}]", ",0".repeat(d)),
        "name-segments" => format!("${}", ".a".repeat(d)),
        "index-segments" => format!("${}", "[0]".repeat(d)),
        "abs-query-tests" => format!("$[?{}]", rec(d, "$.a", &|x| format!("$[?{}]", x))),
        _ => panic!("unknown nesting construct {}", construct),
    }
}

pub const NESTS: [&str; 14] = [
    "parens", "not-parens", "nested-filters", "length-of-value", "match-over-filter", "search-over-filter", "count-over-filter", "test-and-group", "or-chain", "and-chain", "union",
    "name-segments", "index-segments", "abs-query-tests",
];

/// child: parse one string as the first thing this process does
pub fn parse_fresh_child(q: &str) -> i32 {
    match imp::parse(q) {
        Ok(Ok(_)) => println!("accepted"),
        Ok(Err(e)) => println!("rejected: {}", e.lines().last().unwrap_or("").trim()),
        Err(p) => println!("panic: {}", p),
    }
    0
}

fn parse_fresh(q: &str) -> Result<String, String> {
    let exe = std::env::current_exe().map_err(|e| e.to_string())?;
    let out = std::process::Command::new(exe).args(["parse-fresh", q]).output().map_err(|e| e.to_string())?;
    if !out.status.success() {
        return Ok(format!("abort: {:?}", out.status));
    }
    Ok(String::from_utf8_lossy(&out.stdout).trim().to_string())
}

/// space 5: nesting ladders, every sentence parsed as the FIRST parse of a fresh process (no history: nothing an
/// earlier, longer or shorter query left behind can help or hurt), in parallel processes
fn fresh_ladder(l: &Lang, thorough: bool) -> Acc {
    let maxd = if thorough { 14 } else { 10 };
    let jobs: Vec<(&str, usize)> = NESTS.iter().flat_map(|c| (1..=maxd).map(move |d| (*c, d))).collect();
    // the generated sentence set too (C06 only: they are all valid): nothing an earlier parse left behind helps them
    let sent_acc = if l.run.prop == "C06" {
        let all = sentences::sentences(thorough);
        let stride = if thorough { 3 } else { 1 };
        all.par_iter()
            .enumerate()
            .filter(|(i, _)| i % stride == 0)
            .map(|(_, q)| {
                let mut acc = Acc::new();
                let s = render::query(q);
                acc.evals += 1;
                match parse_fresh(&s) {
                    Ok(r) => {
                        acc.nontrivial += 1;
                        if r != "accepted" && classify(&s) == Verdict::Valid {
                            acc.viol(
                                format!("valid RFC 9535 query is not accepted as the first parse of a fresh process: {:?} -> {}", s, r),
                                json!({"kind": "parse-fresh", "class": "fresh-process parse of the sentence set", "string": s, "model": "Valid"}),
                            );
                        }
                    }
                    Err(e) => {
                        acc.bump("MACHINERY_child_failed", 1);
                        acc.outcome(|| e);
                    }
                }
                acc
            })
            .reduce(Acc::new, Acc::merge)
    } else {
        Acc::new()
    };
    let ladder_acc = jobs.par_iter()
        .map(|(c, d)| {
            let mut acc = Acc::new();
            let q = nest(c, *d);
            acc.evals += 1;
            let v = classify(&q);
            let r = match parse_fresh(&q) {
                Ok(r) => r,
                Err(e) => {
                    acc.bump("MACHINERY_child_failed", 1);
                    acc.outcome(|| e);
                    return acc;
                }
            };
            let case = || json!({"kind": "parse-fresh", "class": format!("fresh-process nesting ladder: {}", c), "string": q, "model": format!("{:?}", v)});
            match (l.run.prop.as_str(), v) {
                ("C06", Verdict::Valid) => {
                    acc.nontrivial += 1;
                    if r != "accepted" {
                        acc.viol(format!("valid RFC 9535 query ({} nested {} deep) is not accepted as the first parse of a fresh process: {:?} -> {}", c, d, q, r), case());
                    }
                }
                ("C07", Verdict::Invalid) => {
                    acc.nontrivial += 1;
                    if r == "accepted" {
                        acc.viol(format!("string outside RFC 9535 accepted as the first parse of a fresh process: {:?}", q), case());
                    }
                }
                ("C08", _) => {
                    if r.starts_with("panic") || r.starts_with("abort") {
                        acc.viol(format!("{} nested {} deep: {} ({:?})", c, d, r, q), case());
                    }
                }
                _ => {}
            }
            acc
        })
        .reduce(Acc::new, Acc::merge);
    ladder_acc.merge(sent_acc)
}

pub fn replay_fresh(case: &Value, run: &Run) -> Acc {
    let mut acc = Acc::new();
    let q = case["string"].as_str().unwrap_or("$");
    let v = classify(q);
    let r = parse_fresh(q).unwrap_or_else(|e| format!("machinery: {}", e));
    println!("string         : {:?}\nRFC recogniser : {:?}\nfresh process  : {}", q, v, r);
    let bad = match (run.prop.as_str(), v) {
        ("C06", Verdict::Valid) => r != "accepted",
        ("C07", Verdict::Invalid) => r == "accepted",
        ("C08", _) => r.starts_with("panic") || r.starts_with("abort"),
        _ => false,
    };
    if bad {
        acc.viol(format!("{:?} as the first parse of a fresh process: {}", q, r), case.clone());
    }
    acc
}

pub fn run(prop: &str, tier: &str) -> i32 {
    let run = Run::new(prop, tier);
    let th = run.thorough();
    let l = Lang::new(&run);
    // generator => recogniser consistency (machinery check)
    let mut bad = 0;
    for q in sentences::sentences(false).iter().chain(if th { sentences::sentences(true) } else { vec![] }.iter()) {
        let s = render::query(q);
        match rfc_parse(&s) {
            Ok((back, info)) if &back == q && !info.unknown_fn && !info.big_literal => {}
            other => {
                if bad < 5 {
                    eprintln!("MACHINERY: generated sentence {:?} is not recognised as itself: {:?}", s, other.map(|x| x.0));
                }
                bad += 1;
            }
        }
    }
    if bad > 0 {
        eprintln!("MACHINERY: {} generated sentences disagree with the recogniser", bad);
        return 2;
    }
    let (ntok, nchar) = match (prop, th) {
        ("C08", false) => (4, 4),
        ("C08", true) => (5, 5),
        (_, false) => (5, 4),
        (_, true) => (6, 5),
    };
    let mut labels = vec![];
    let mut total = Acc::new();
    let mut stage = |name: &str, a: Acc, t0: std::time::Instant| {
        labels.push(format!("{}: {} strings, {:.1}s", name, a.evals, t0.elapsed().as_secs_f64()));
        eprintln!("  {}", labels.last().unwrap());
        a
    };
    let t0 = std::time::Instant::now();
    let a = stage("families", families(&l, th), t0);
    total = total.merge(a);
    let t0 = std::time::Instant::now();
    let a = stage("sentences, blank variants and single-token edits", sentence_space(&l, th), t0);
    total = total.merge(a);
    let t0 = std::time::Instant::now();
    let a = stage(&format!("character strings up to length {}", nchar), char_space(&l, nchar), t0);
    total = total.merge(a);
    let t0 = std::time::Instant::now();
    let a = stage(&format!("token strings up to {} tokens after $", ntok), token_space(&l, ntok), t0);
    total = total.merge(a);
    if prop != "C08" {
        let t0 = std::time::Instant::now();
        let a = stage("nesting ladders, each sentence as the first parse of a fresh process", fresh_ladder(&l, th), t0);
        if a.extra.get("MACHINERY_child_failed").copied().unwrap_or(0) > 0 {
            eprintln!("MACHINERY: a parse-fresh child could not be run");
            return 2;
        }
        total = total.merge(a);
    }
    if prop == "C08" {
        let t0 = std::time::Instant::now();
        let a = stage("integer cube (index / slice / singular index, parsed and programmatic)", crate::checks::robust::cube(&run), t0);
        total = total.merge(a);
        let t0 = std::time::Instant::now();
        let a = stage("programmatically built name selectors (odd names and escape-token texts, 5 quotings, 4 shapes)", crate::checks::robust::built_names(&run), t0);
        total = total.merge(a);
        let t0 = std::time::Instant::now();
        let built = match crate::checks::robust::built_queries(&run) {
            Ok(a) => a,
            Err(e) => {
                eprintln!("MACHINERY: {}", e);
                return 2;
            }
        };
        let a = stage("programmatically built function expressions (well-typed and ill-typed), evaluated on the panel", built, t0);
        total = total.merge(a);
        let t0 = std::time::Instant::now();
        let a = stage("regular-expression pattern pipeline (stress patterns and nesting ladders 1..300)", crate::checks::robust::regex_patterns(&run), t0);
        total = total.merge(a);
        let t0 = std::time::Instant::now();
        let a = stage("functions over lists (sizes around sort / search thresholds x 9 element mixes x arrangements)", crate::checks::robust::list_functions(&run), t0);
        total = total.merge(a);
        let t0 = std::time::Instant::now();
        let a = stage("depth ladder (isolated subprocesses)", crate::checks::robust::ladder(&run), t0);
        total = total.merge(a);
    }
    let rule = match prop {
        "C06" => "every string of five exhaustively enumerated spaces (token strings, character strings, generated ABNF sentences with blank-space variants, one-position families, single-token edits) and of 14 nesting ladders (depth 1..10 (14), each sentence parsed as the first parse of a fresh process) is classified by the RFC recogniser and parsed by the real parser; a C06 case is a string the recogniser calls valid; distinct_nontrivial = distinct valid strings (hash set)",
        "C07" => "same enumeration; a C07 case is a string the recogniser calls invalid; distinct_nontrivial = distinct invalid strings from the near-miss spaces (families, blank variants, single-token edits of valid sentences)",
        _ => "same enumeration; every string is parsed under catch_unwind with overflow checks on; every accepted string is evaluated on a 12-document panel through query_with_path, query, query_only_path and js_path_process and must return Ok; regular-expression patterns (a stress list plus six nesting / repetition ladders over every depth 1..300) as literals and from the document through match and search must evaluate to Ok; distinct_nontrivial = distinct accepted strings",
    };
    run.finish(
        total,
        rule,
        &[
            "recogniser = mc/src/model/parse.rs (RFC 9535 ABNF + validity rules), cross-checked against the sentence generator at start-up",
            "strings that call a function name RFC 9535 does not define, or contain an integer-form literal outside the I-JSON range, are don't-care for C06/C07",
        ],
        true,
        json!({"spaces": labels, "token_alphabet": TOKENS, "max_tokens": ntok, "max_chars": nchar}),
    )
}

pub fn replay(case: &Value, run: &Run) -> Acc {
    let mut acc = Acc::new();
    let s = case["string"].as_str().unwrap_or("");
    let l = Lang::new(run);
    // first alone; if the case does not show alone, after the strings the same worker thread had examined before it
    let mut alone = Acc::new();
    l.examine(&mut alone, s, case["class"].as_str().unwrap_or("-"), true);
    let hist: Vec<String> = case["history"].as_array().map(|a| a.iter().filter_map(|x| x.as_str().map(String::from)).collect()).unwrap_or_default();
    if alone.viol_count == 0 && !hist.is_empty() {
        println!("the case does not show on a fresh thread; replaying the {} strings the worker had examined before it", hist.len());
        let mut scratch = Acc::new();
        for h in &hist {
            l.examine(&mut scratch, h, "history", false);
        }
    }
    println!("string          : {:?}", s);
    println!("RFC recogniser  : {:?} {:?}", classify(s), rfc_parse(s).err());
    println!("implementation  : {:?}", imp::parse(s).map(|r| r.map(|q| format!("{:?}", q))));
    l.examine(&mut acc, s, case["class"].as_str().unwrap_or("-"), true);
    acc
}
