//! C09: `reference` / `reference_mut` resolve a normalized path to exactly its node; update histories.

use crate::acc::{Acc, Run};
use crate::gen::docs;
use crate::model::ast::Sel;
use crate::model::eval::{legacy_key, resolve, Loc, Step};
use crate::model::normpath::normpath;
use crate::model::parse::rfc_parse;
use jsonpath_rust::query::queryable::Queryable;
use jsonpath_rust::JsonPath;
use rayon::prelude::*;
use serde_json::{json, Value};
use std::collections::{HashSet, VecDeque};
use std::panic::{catch_unwind, AssertUnwindSafe};

fn all_locs(v: &Value, cur: &mut Loc, out: &mut Vec<Loc>) {
    out.push(cur.clone());
    match v {
        Value::Array(a) => {
            for (i, x) in a.iter().enumerate() {
                cur.push(Step::Index(i));
                all_locs(x, cur, out);
                cur.pop();
            }
        }
        Value::Object(m) => {
            for (k, x) in m {
                cur.push(Step::Name(k.clone()));
                all_locs(x, cur, out);
                cur.pop();
            }
        }
        _ => {}
    }
}

/// reference model of an update: the document with the node at `loc` replaced
fn model_set(doc: &Value, loc: &[Step], w: &Value) -> Option<Value> {
    if loc.is_empty() {
        return Some(w.clone());
    }
    let mut d = doc.clone();
    {
        let mut cur = &mut d;
        for s in loc {
            cur = match (s, cur) {
                (Step::Name(n), Value::Object(m)) => m.get_mut(n)?,
                (Step::Index(i), Value::Array(a)) => a.get_mut(*i)?,
                _ => return None,
            };
        }
        *cur = w.clone();
    }
    Some(d)
}

/// where the path string leads under the name-lookup finding (raw selector text looked up)
fn legacy_resolve(doc: &Value, path: &str) -> Option<Option<Loc>> {
    let (q, _) = rfc_parse(path).ok()?;
    let mut loc: Loc = vec![];
    let mut cur = doc;
    for seg in &q.segs {
        if seg.desc || seg.sels.len() != 1 {
            return None;
        }
        match &seg.sels[0] {
            Sel::Name { raw, .. } => {
                let key = legacy_key(raw);
                match cur {
                    Value::Object(m) => match m.get(&key) {
                        Some(v) => {
                            cur = v;
                            loc.push(Step::Name(key));
                        }
                        None => return Some(None),
                    },
                    _ => return Some(None),
                }
            }
            Sel::Index(i) if *i >= 0 => match cur {
                Value::Array(a) => match a.get(*i as usize) {
                    Some(v) => {
                        cur = v;
                        loc.push(Step::Index(*i as usize));
                    }
                    None => return Some(None),
                },
                _ => return Some(None),
            },
            _ => return None,
        }
    }
    Some(Some(loc))
}

fn ser(v: &Value) -> String {
    serde_json::to_string(v).unwrap()
}

fn addr(v: &Value) -> usize {
    v as *const Value as usize
}

/// the location `reference(path)` resolves to, by address; Err = panic text
fn observe_ref(doc: &Value, path: &str, locs: &[(usize, Loc)]) -> Result<Option<Option<Loc>>, String> {
    let r = catch_unwind(AssertUnwindSafe(|| doc.reference(path.to_string()).map(addr))).map_err(crate::imp::panic_text)?;
    Ok(match r {
        None => None,
        Some(a) => Some(locs.iter().find(|(x, _)| *x == a).map(|(_, l)| l.clone())),
    })
}

fn known_name_escape(run: &Run, acc: &mut Acc, doc: &Value, path: &str, observed: &Option<Loc>, what: &str) -> bool {
    if let Some(id) = run.findings.allowed("C09", "legacy_name_lookup") {
        if let Some(l) = legacy_resolve(doc, path) {
            if &l == observed {
                let id = id.to_string();
                acc.known(&id, || format!("{} {} on {}", what, path, doc));
                return true;
            }
        }
    }
    false
}

fn replacements() -> Vec<Value> {
    vec![json!(null), json!(7), json!("z"), json!([]), json!({"n": 1})]
}

fn node_sweep(run: &Run, acc: &mut Acc, doc: &Value) {
    let mut locs = vec![];
    all_locs(doc, &mut vec![], &mut locs);
    let addr_locs: Vec<(usize, Loc)> = locs.iter().map(|l| (addr(resolve(doc, l).unwrap()), l.clone())).collect();
    for loc in &locs {
        let p = normpath(loc);
        // (a) reference
        acc.evals += 1;
        acc.nontrivial += 1;
        match observe_ref(doc, &p, &addr_locs) {
            Err(e) => acc.viol(format!("reference({}) on {} panicked: {}", p, doc, e), json!({"kind": "ref", "class": "reference panics", "doc": doc, "path": p})),
            Ok(obs) => {
                let flat = match &obs {
                    None => None,
                    Some(None) => {
                        acc.viol(format!("reference({}) on {} returns a value that is not a node of the document", p, doc), json!({"kind": "ref", "class": "reference foreign value", "doc": doc, "path": p}));
                        continue;
                    }
                    Some(Some(l)) => Some(l.clone()),
                };
                if flat.as_ref() != Some(loc) {
                    if !known_name_escape(run, acc, doc, &p, &flat, "reference") {
                        acc.viol(
                            format!("reference({}) on {} must return the node at that location, got {}", p, doc, flat.map(|l| normpath(&l)).unwrap_or("None".into())),
                            json!({"kind": "ref", "class": "reference of an existing node", "doc": doc, "path": p}),
                        );
                    }
                    continue;
                } else {
                    acc.sample(|| json!({"doc": doc, "path": p, "reference": "the node at that path"}));
                }
            }
        }
        // (b) reference_mut: write and compare the whole document
        for w in replacements() {
            acc.evals += 1;
            let mut d2 = doc.clone();
            let r = catch_unwind(AssertUnwindSafe(|| match d2.reference_mut(p.clone()) {
                Some(h) => {
                    *h = w.clone();
                    true
                }
                None => false,
            }));
            let expected = model_set(doc, loc, &w).unwrap();
            match r {
                Err(e) => acc.viol(format!("reference_mut({}) on {} panicked: {}", p, doc, crate::imp::panic_text(e)), json!({"kind": "ref", "class": "reference_mut panics", "doc": doc, "path": p, "write": w})),
                Ok(found) => {
                    if !found || ser(&d2) != ser(&expected) {
                        acc.viol(
                            format!(
                                "writing {} through reference_mut({}) on {} must give {} but gives {}{}",
                                w,
                                p,
                                doc,
                                expected,
                                d2,
                                if found { "" } else { " (None returned)" }
                            ),
                            json!({"kind": "ref", "class": "reference_mut write", "doc": doc, "path": p, "write": w}),
                        );
                    }
                }
            }
        }
    }
    // (d) every path a query returns leads back to the node it was reported for: routes to a node through wildcards
    // and filters over array elements and object members. The expected node of every result position comes from the
    // reference model; a position whose reported path is not the normalized path of the expected node belongs to
    // C03 (path rendering), a position whose path is right must carry exactly that node, and `reference` must
    // resolve the path to it.
    {
        let dc = crate::checks::common::DocCtx::new(doc);
        let legacy_ok = run.findings.allowed("C09", "legacy_path").map(|s| s.to_string());
        for q in ["$[?@]", "$.*[?@]", "$.*.*[?@]", "$[*]", "$.*.*", "$[?@!=1]", "$[?!@.zz]", "$.*[?!@.zz]", "$[*,*]", "$.*[?@==@]", "$[1:]", "$[::-1]", "$[*][1:]", "$.*[::2]", "$.*[-1:]", "$[0:2][0:]", "$[-1]", "$.*[-2]"] {
            let ast = crate::model::parse::rfc_parse(q).expect("valid query").0;
            let expected = match dc.model_ids(&ast, crate::model::eval::EDev::default()) {
                Some(v) => v,
                None => continue,
            };
            let res = match crate::imp::run_with_path(q, doc, &dc.am) {
                crate::imp::ImplOut::Ok(v) => v,
                _ => continue, // C01 / C08
            };
            if res.len() != expected.len() {
                acc.bump("feed_back_result_length_differs_left_to_C01", 1);
                continue;
            }
            // the paths the legacy rendering (known finding of C03) gives to the same nodes
            let legacy: Option<Vec<String>> = legacy_ok.as_ref().and_then(|_| {
                let mut dev = crate::model::eval::EDev::default();
                dev.legacy_path = true;
                crate::model::eval::Ctx { root: doc, dev }.eval_query(&ast).ok().map(|n| n.into_iter().map(|x| x.lpath).collect())
            });
            for (i, ((id, p), want)) in res.iter().zip(expected.iter()).enumerate() {
                acc.evals += 1;
                let wl = dc.am.loc(*want);
                if *p == normpath(wl) {
                    if id != want {
                        let got = if *id == crate::imp::FABRICATED { "a value outside the document".to_string() } else { normpath(dc.am.loc(*id)) };
                        acc.viol(
                            format!("{} on {} reports the path {} together with the node at {}: feeding the path back reads or updates a different node than the one it was reported for", q, doc, p, got),
                            json!({"kind": "ref", "class": "reported path does not lead back to the reported node", "doc": doc, "path": p, "query": q}),
                        );
                    } else {
                        acc.nontrivial += 1;
                    }
                    continue;
                }
                if id != want {
                    acc.bump("feed_back_node_and_path_differ_left_to_C01", 1);
                    continue;
                }
                // the right node under a path that is not its normalized path: does the path lead back to it?
                let back = observe_ref(doc, p, &addr_locs);
                if matches!(&back, Ok(Some(Some(l))) if l == wl) {
                    acc.bump("non_normalized_paths_that_still_lead_back", 1);
                    continue;
                }
                if let (Some(id), Some(l)) = (&legacy_ok, &legacy) {
                    if l.len() == res.len() && l[i] == *p {
                        acc.known(id, || format!("{} on {} reports {} for the node at {}", q, doc, p, normpath(wl)));
                        continue;
                    }
                }
                acc.viol(
                    format!("{} on {} reports the path {} for the node at {}; fed back, the path leads to {:?}: the node it was reported for cannot be read or updated through it", q, doc, p, normpath(wl), back.map(|o| o.map(|l| l.map(|l| normpath(&l))))),
                    json!({"kind": "ref", "class": "reported path does not lead back to the reported node", "doc": doc, "path": p, "query": q}),
                );
            }
        }
    }
    // (c) locations that do not exist
    let mut bad: Vec<Loc> = vec![];
    for loc in &locs {
        let v = resolve(doc, loc).unwrap();
        let mut push = |s: Step| {
            let mut l = loc.clone();
            l.push(s);
            bad.push(l);
        };
        match v {
            Value::Object(m) => {
                for n in ["zz", "0", ""] {
                    if !m.contains_key(n) {
                        push(Step::Name(n.to_string()));
                    }
                }
                push(Step::Index(0));
                push(Step::Index(1));
            }
            Value::Array(a) => {
                push(Step::Index(a.len()));
                push(Step::Index(a.len() + 7));
                push(Step::Name("0".into()));
                push(Step::Name("a".into()));
                push(Step::Name(a.len().to_string()));
            }
            _ => {
                push(Step::Name("a".into()));
                push(Step::Name("0".into()));
                push(Step::Index(0));
            }
        }
    }
    for loc in &bad {
        let p = normpath(loc);
        acc.evals += 1;
        acc.bump("nonexistent_locations", 1);
        match observe_ref(doc, &p, &addr_locs) {
            Err(e) => acc.viol(format!("reference({}) on {} panicked: {}", p, doc, e), json!({"kind": "ref", "class": "reference panics", "doc": doc, "path": p})),
            Ok(None) => {}
            Ok(Some(l)) => {
                if !known_name_escape(run, acc, doc, &p, &l, "reference") {
                    acc.viol(
                        format!("reference({}) on {}: that location does not exist, expected None, got {}", p, doc, l.map(|l| normpath(&l)).unwrap_or("a foreign value".into())),
                        json!({"kind": "ref", "class": "reference of a missing location", "doc": doc, "path": p}),
                    );
                }
            }
        }
        let mut d2 = doc.clone();
        let r = catch_unwind(AssertUnwindSafe(|| match d2.reference_mut(p.clone()) {
            Some(h) => {
                *h = json!("WRITTEN");
                true
            }
            None => false,
        }));
        match r {
            Err(e) => acc.viol(format!("reference_mut({}) panicked: {}", p, crate::imp::panic_text(e)), json!({"kind": "ref", "class": "reference_mut panics", "doc": doc, "path": p})),
            Ok(false) => {}
            Ok(true) => {
                // licensed only if the name-lookup finding leads to exactly the node that was overwritten
                let mut licensed = false;
                if let Some(Some(Some(l))) = run.findings.allowed("C09", "legacy_name_lookup").map(|_| legacy_resolve(doc, &p)) {
                    if let Some(exp) = model_set(doc, &l, &json!("WRITTEN")) {
                        if ser(&exp) == ser(&d2) {
                            licensed = true;
                            let id = run.findings.allowed("C09", "legacy_name_lookup").unwrap().to_string();
                            acc.known(&id, || format!("reference_mut {} on {}", p, doc));
                        }
                    }
                }
                if !licensed {
                    acc.viol(
                        format!("reference_mut({}) on {}: that location does not exist, expected None, but a handle was returned and the document became {}", p, doc, d2),
                        json!({"kind": "ref", "class": "reference_mut of a missing location", "doc": doc, "path": p}),
                    );
                }
            }
        }
    }
}

/// update histories: BFS over documents reached by writes through the paths of one initial query
fn histories(run: &Run, acc: &mut Acc, doc: &Value, depth: usize) {
    // paths of every node below the root, as one query reports them (only the normalized ones are fed back;
    // the others belong to C03's path-rendering finding)
    let mut locs = vec![];
    all_locs(doc, &mut vec![], &mut locs);
    let reported: Vec<String> = match catch_unwind(AssertUnwindSafe(|| doc.query_only_path("$..*"))) {
        Ok(Ok(p)) => p,
        _ => return,
    };
    let paths: Vec<(String, Loc)> = locs.iter().skip(1).map(|l| (normpath(l), l.clone())).filter(|(p, _)| reported.contains(p)).take(7).collect();
    if paths.is_empty() {
        return;
    }
    let writes = [json!(7), json!([]), json!({"n": [1]})];
    let mut seen: HashSet<String> = HashSet::new();
    seen.insert(ser(doc));
    let mut q: VecDeque<(Value, usize)> = VecDeque::new();
    q.push_back((doc.clone(), 0));
    acc.states += 1;
    while let Some((d, k)) = q.pop_front() {
        if k >= depth {
            continue;
        }
        for (p, loc) in &paths {
            for w in &writes {
                acc.transitions += 1;
                acc.evals += 1;
                let expected = model_set(&d, loc, w);
                let mut d2 = d.clone();
                let r = catch_unwind(AssertUnwindSafe(|| match d2.reference_mut(p.clone()) {
                    Some(h) => {
                        *h = w.clone();
                        true
                    }
                    None => false,
                }));
                let case = || json!({"kind": "ref-history", "class": "update history", "doc": d, "path": p, "write": w, "initial": doc});
                match (r, expected) {
                    (Err(e), _) => acc.viol(format!("reference_mut({}) on {} panicked: {}", p, d, crate::imp::panic_text(e)), case()),
                    (Ok(true), Some(exp)) => {
                        acc.nontrivial += 1;
                        if ser(&exp) != ser(&d2) {
                            acc.viol(format!("after earlier updates the document is {}; writing {} through {} must give {} but gives {}", d, w, p, exp, d2), case());
                        } else if seen.insert(ser(&d2)) {
                            acc.states += 1;
                            q.push_back((d2, k + 1));
                        }
                    }
                    (Ok(false), None) => {
                        acc.bump("dangling_paths_correctly_none", 1);
                        if ser(&d) != ser(&d2) {
                            acc.viol(format!("reference_mut({}) returned None but changed {} into {}", p, d, d2), case());
                        }
                    }
                    (Ok(true), None) => {
                        acc.viol(format!("after earlier updates the document is {}; {} no longer exists, expected None, but the document became {}", d, p, d2), case());
                    }
                    (Ok(false), Some(exp)) => {
                        // licensed only through the name-lookup finding
                        if !known_name_escape(run, acc, &d, p, &None, "reference_mut") {
                            acc.viol(format!("after earlier updates the document is {}; writing {} through {} must give {} but None was returned", d, w, p, exp), case());
                        }
                    }
                }
            }
        }
    }
}

/// one variable, successive documents: a look-up that misses in the first document, then the variable is given the
/// second document (as a whole, without going through `reference_mut`), then every node of the second document must
/// be found. Document pairs = (d, d after one write that creates new locations).
fn slot_histories(acc: &mut Acc, doc: &Value) {
    let mut locs = vec![];
    all_locs(doc, &mut vec![], &mut locs);
    let writes = [json!([[1], {"n": 2}]), json!({"n": [1], "m": {"k": 1}})];
    let mut slot = Value::Null;
    for loc in locs.iter().skip(1).take(6) {
        for w in &writes {
            let d2 = match model_set(doc, loc, w) {
                Some(d) => d,
                None => continue,
            };
            let mut locs2 = vec![];
            all_locs(&d2, &mut vec![], &mut locs2);
            let fresh: Vec<&Loc> = locs2.iter().filter(|l| resolve(doc, l).is_none()).collect();
            for miss in fresh.iter().take(4) {
                let p = normpath(miss);
                slot.clone_from(doc);
                acc.transitions += 1;
                let first = catch_unwind(AssertUnwindSafe(|| slot.reference(p.clone()).is_some()));
                if !matches!(first, Ok(false)) {
                    // a location that does not exist must not resolve: part (c) of the sweep reports that
                    continue;
                }
                slot.clone_from(&d2);
                let addr_locs: Vec<(usize, Loc)> = locs2.iter().map(|l| (addr(resolve(&slot, l).unwrap()), l.clone())).collect();
                for l in &locs2 {
                    acc.evals += 1;
                    let q = normpath(l);
                    match observe_ref(&slot, &q, &addr_locs) {
                        Ok(Some(Some(got))) if &got == l => acc.nontrivial += 1,
                        other => {
                            // only report what a fresh copy of the second document resolves correctly (the rest is part (a)'s)
                            let fresh_doc = d2.clone();
                            let fl: Vec<(usize, Loc)> = locs2.iter().map(|l| (addr(resolve(&fresh_doc, l).unwrap()), l.clone())).collect();
                            if matches!(observe_ref(&fresh_doc, &q, &fl), Ok(Some(Some(ref g))) if g == l) {
                                acc.viol(
                                    format!("a variable held {}; reference({}) found nothing there; the variable was then given {}; now reference({}) returns {:?} although that node exists (a fresh copy resolves it)", doc, p, d2, q, other.map(|o| o.map(|l| l.map(|l| normpath(&l))))),
                                    json!({"kind": "ref-slot", "class": "one variable, successive documents", "first": doc, "miss": p, "second": d2, "path": q}),
                                );
                                return;
                            }
                        }
                    }
                }
            }
        }
    }
}

pub fn replay_slot(case: &Value, _run: &Run) -> Acc {
    let mut acc = Acc::new();
    let mut slot = Value::Null;
    slot.clone_from(&case["first"]);
    let miss = case["miss"].as_str().unwrap_or("$").to_string();
    let q = case["path"].as_str().unwrap_or("$").to_string();
    let a = slot.reference(miss.clone()).is_some();
    slot.clone_from(&case["second"]);
    let b = slot.reference(q.clone()).map(|v| v.to_string());
    let fresh = case["second"].clone();
    let c = fresh.reference(q.clone()).map(|v| v.to_string());
    println!("first document : {}\nreference({}) -> found: {}\nsecond document: {}\nreference({}) -> {:?} ; on a fresh copy -> {:?}", case["first"], miss, a, case["second"], q, b, c);
    if b != c {
        acc.viol(format!("reference({}) depends on the earlier miss: {:?} vs {:?} on a fresh copy", q, b, c), case.clone());
    }
    acc
}

/// operation sequences: `reference` / `reference_mut` are pure look-ups, so the result of a call must not depend
/// on the calls made before it - in particular not on calls with paths the functions do not support
/// (wildcards, slices, negative indices, descendants, filters, syntax errors), which must simply yield None
fn sequences(run: &Run, acc: &mut Acc, doc: &Value, depth: usize) {
    let mut locs = vec![];
    all_locs(doc, &mut vec![], &mut locs);
    let addr_locs: Vec<(usize, Loc)> = locs.iter().map(|l| (addr(resolve(doc, l).unwrap()), l.clone())).collect();
    // operation alphabet: (path, expected location)
    let mut ops: Vec<(String, Option<Loc>)> = vec![];
    for l in locs.iter().take(6) {
        ops.push((normpath(l), Some(l.clone())));
    }
    let junk_tails = ["[*]", "[-1]", "[0:1]", "..['a']", "[?@]", "[0,1]", ".*", "['zz']", "[99]", "["];
    for l in locs.iter().take(4) {
        let p = normpath(l);
        for t in junk_tails {
            ops.push((format!("{}{}", p, t), None));
        }
    }
    // shorthand spellings of existing locations, and of the same path with its last name cut short by one character
    // (a string prefix of a path is not a prefix of the location)
    for l in locs.iter().skip(1).take(8) {
        if l.iter().all(|s| matches!(s, Step::Name(n) if crate::model::render::is_shorthand_name(n))) {
            let sh: String = std::iter::once("$".to_string()).chain(l.iter().map(|s| if let Step::Name(n) = s { format!(".{}", n) } else { String::new() })).collect();
            ops.push((sh.clone(), Some(l.clone())));
            if let Some(Step::Name(last)) = l.last() {
                if last.chars().count() >= 2 {
                    let cut: String = last.chars().take(last.chars().count() - 1).collect();
                    let mut l2 = l.clone();
                    *l2.last_mut().unwrap() = Step::Name(cut);
                    let sh2: String = std::iter::once("$".to_string()).chain(l2.iter().map(|s| if let Step::Name(n) = s { format!(".{}", n) } else { String::new() })).collect();
                    let exp = resolve(doc, &l2).map(|_| l2.clone());
                    // the cut path first, the full one after it
                    let at = ops.len() - 1;
                    ops.insert(at, (sh2, exp));
                }
            }
        }
    }
    ops.push(("".to_string(), None));
    ops.push(("@".to_string(), None));
    // expected results under the licensed name-lookup finding are taken from the solo call
    let solo: Vec<Result<Option<Option<Loc>>, String>> = ops.iter().map(|(p, _)| observe_ref(doc, p, &addr_locs)).collect();
    for (i, (p, exp)) in ops.iter().enumerate() {
        acc.evals += 1;
        let want = exp.clone().map(Some);
        if solo[i] != Ok(want.clone()) {
            let flat = match &solo[i] {
                Ok(Some(Some(l))) => Some(l.clone()),
                _ => None,
            };
            if matches!(solo[i], Ok(Some(None))) || solo[i].is_err() || !known_name_escape(run, acc, doc, p, &flat, "reference") {
                acc.viol(
                    format!("reference({}) on {}: expected {:?}, got {:?}", p, doc, exp.as_ref().map(normpath), solo[i]),
                    json!({"kind": "ref-seq", "class": "reference (single call)", "doc": doc, "paths": [p]}),
                );
            }
        }
    }
    // every sequence of length 2 (and 3 when depth allows): the last call must give its solo result
    let n = ops.len();
    let mut check_seq = |acc: &mut Acc, seq: &[usize], mutating: bool| {
        acc.evals += 1;
        acc.transitions += seq.len() as u64;
        let last = *seq.last().unwrap();
        let mut d2;
        let target: &Value = if mutating {
            // earlier calls go through reference_mut (without writing); the document stays equal, addresses change
            d2 = doc.clone();
            for i in &seq[..seq.len() - 1] {
                let _ = catch_unwind(AssertUnwindSafe(|| d2.reference_mut(ops[*i].0.clone()).is_some()));
            }
            &d2
        } else {
            for i in &seq[..seq.len() - 1] {
                let _ = catch_unwind(AssertUnwindSafe(|| doc.reference(ops[*i].0.clone()).is_some()));
            }
            doc
        };
        let got = if mutating {
            let mut l2 = vec![];
            all_locs(target, &mut vec![], &mut l2);
            let al: Vec<(usize, Loc)> = l2.iter().map(|l| (addr(resolve(target, l).unwrap()), l.clone())).collect();
            observe_ref(target, &ops[last].0, &al)
        } else {
            observe_ref(target, &ops[last].0, &addr_locs)
        };
        if got != solo[last] {
            acc.viol(
                format!(
                    "on {}: after the calls {:?}, reference({}) returns {:?}; called alone it returns {:?}",
                    doc,
                    seq[..seq.len() - 1].iter().map(|i| format!("{}({})", if mutating { "reference_mut" } else { "reference" }, ops[*i].0)).collect::<Vec<_>>(),
                    ops[last].0,
                    got.as_ref().map(|o| o.as_ref().map(|l| l.as_ref().map(normpath))),
                    solo[last].as_ref().map(|o| o.as_ref().map(|l| l.as_ref().map(normpath)))
                ),
                json!({"kind": "ref-seq", "class": "reference after a history of calls", "doc": doc, "paths": seq.iter().map(|i| ops[*i].0.clone()).collect::<Vec<_>>(), "mutating": mutating}),
            );
        } else {
            acc.nontrivial += 1;
        }
    };
    for a in 0..n {
        for b in 0..n.min(10) {
            check_seq(acc, &[a, b], false);
            check_seq(acc, &[a, b], true);
        }
    }
    if depth >= 3 {
        for a in 0..n {
            for b in 0..n {
                for c in 0..n.min(6) {
                    check_seq(acc, &[a, b, c], false);
                }
            }
        }
    }
    acc.states += n as u64;
}

pub fn run(tier: &str) -> i32 {
    let run = Run::new("C09", tier);
    let th = run.thorough();
    let mut sweep_docs = docs::names_universe(th);
    sweep_docs.extend(docs::universe(2, 2, &[json!(1), json!("a")], &["b", "a"]));
    sweep_docs.extend(docs::panel());
    // deeper than a parser accepts, and wide containers around powers of two
    sweep_docs.extend(docs::deep_docs(false).into_iter().step_by(if th { 1 } else { 3 }));
    for n in [16usize, 17, 64, 65, 256, 257] {
        sweep_docs.push(Value::Array((0..n).map(|i| if i % 4 == 0 { json!([i]) } else { json!(i) }).collect()));
        sweep_docs.push(Value::Object((0..n).map(|i| (format!("k{}", i), if i % 4 == 0 { json!({"a": i}) } else { json!(i) })).collect()));
    }
    // pointer-syntax look-alikes
    sweep_docs.extend([
        json!({"0": 1, "1": [2]}),
        json!([{"0": 1}, [0, 1]]),
        json!({"a/b": 1, "a": {"b": 2}}),
        json!({"~0": 1, "~": {"0": 2}, "~1": 3, "/": 4}),
        json!({"a~1b": 1, "a/b": 2}),
        json!({"": {"": 1}, "a": {"": 2}}),
        json!({"-": 1, "a": ["x"]}),
        json!([[[]], {"": []}]),
    ]);
    let a = sweep_docs
        .par_iter()
        .map(|d| {
            let mut acc = Acc::new();
            node_sweep(&run, &mut acc, d);
            acc.bump("documents_swept", 1);
            acc
        })
        .reduce(Acc::new, Acc::merge);
    let mut hist_docs = docs::universe(2, 2, &[json!(1)], &["b", "a"]);
    hist_docs.extend(docs::panel().into_iter().filter(|d| ser(d).len() < 200));
    hist_docs.extend(docs::names_universe(false));
    let depth = if th { 3 } else { 2 };
    let b = hist_docs
        .par_iter()
        .map(|d| {
            let mut acc = Acc::new();
            histories(&run, &mut acc, d, depth);
            acc.bump("documents_with_histories", 1);
            acc
        })
        .reduce(Acc::new, Acc::merge);
    let mut seq_docs = docs::universe(1, 2, &[json!(1), json!("a")], &["b", "a"]);
    seq_docs.extend(docs::panel().into_iter().filter(|d| ser(d).len() < 120));
    seq_docs.extend([json!({"ab": {"cd": 1}, "b": 2}), json!({"cfg": {"name": "n"}, "items": [1]}), json!({"a": {"b": 1, "c": [1, 2]}, "b": 2}), json!([[1, 2], {"a": [3]}]), json!({"a": {"a": {"a": 1}}})]);
    let c = seq_docs
        .par_iter()
        .map(|d| {
            let mut acc = Acc::new();
            sequences(&run, &mut acc, d, if th { 3 } else { 2 });
            slot_histories(&mut acc, d);
            acc.bump("documents_with_call_sequences", 1);
            acc
        })
        .reduce(Acc::new, Acc::merge);
    let b = b.merge(c);
    run.finish(
        a.merge(b),
        "node sweep: one case = (document, node location, operation) with operation in {reference, reference_mut + one of 5 written values} plus, per node, locations that do not exist (absent name, index = len, index into an object, name into an array, '0' vs 0); update histories: breadth-first search over the documents reached by sequences of writes through the paths of one initial `$..*` query (states = distinct documents, transitions = writes, each executed on the implementation and on the reference model); call sequences: every sequence of two (thorough: three) look-ups over an alphabet of existing paths and of paths the functions do not support (wildcard, slice, negative index, descendant, filter, syntax error), the last call compared with the same call made alone; one variable, successive documents: a miss in document d, the variable then holds d after a write that creates locations, every node of the new content must resolve; non-trivial = operations on existing locations / sequences executed",
        &["normalized paths are computed by the harness (RFC 9535 2.7) from node locations", "documents are compared as serialized text, i.e. including member order"],
        true,
        json!({"history_depth": depth}),
    )
}

pub fn replay(case: &Value, run: &Run) -> Acc {
    let mut acc = Acc::new();
    match case["kind"].as_str().unwrap_or("") {
        "ref" => {
            let doc = &case["doc"];
            println!("document : {}", doc);
            println!("path     : {}", case["path"]);
            node_sweep(run, &mut acc, doc);
            // keep only the violations about this path
            let p = case["path"].as_str().unwrap_or("").to_string();
            acc.viols.retain(|v| v.case["path"].as_str() == Some(&p));
            acc.viol_count = acc.viols.len() as u64;
        }
        "ref-seq" => {
            println!("document : {}", case["doc"]);
            println!("calls    : {}", case["paths"]);
            sequences(run, &mut acc, &case["doc"], 3);
        }
        _ => {
            let initial = &case["initial"];
            println!("initial document : {}", initial);
            histories(run, &mut acc, initial, 3);
        }
    }
    acc
}
