pub mod nodelist;
