pub mod common;
pub mod compare;
pub mod ext;
pub mod lang;
pub mod nodelist;
pub mod robust;
pub mod slices;
