pub mod common;
pub mod compare;
pub mod ext;
pub mod nodelist;
pub mod slices;
