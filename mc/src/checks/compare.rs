//! C04: the comparison table. Every pair of values of the universe V (plus "nothing") x six operators x
//! operand forms, decided through filter queries; plus the algebraic laws on the observed truth values.

use super::common::{check_case, packed, DocCtx, Mode};
use crate::acc::{Acc, Run};
use crate::model::ast::*;
use crate::model::parse::rfc_parse;
use crate::model::render::quote_single;
use rayon::prelude::*;
use serde_json::{json, Map, Value};

pub fn numbers(thorough: bool) -> Vec<(Value, String)> {
    let mut v: Vec<(Value, String)> = vec![
        (json!(0), "0".into()),
        (json!(1), "1".into()),
        (json!(-1), "-1".into()),
        (json!(1.0), "1.0".into()),
        (json!(1.5), "1.5".into()),
        (json!(2), "2".into()),
        (json!(100), "100".into()),
        (json!(100.0), "1e2".into()),
        (json!(9007199254740991i64), "9007199254740991".into()),
        (json!(0.1), "0.1".into()),
        (json!(1e-20), "1e-20".into()),
        (json!(2e-20), "2e-20".into()),
        (json!(-0.0), "-0.0".into()),
        // neighbouring doubles around an integer, and integers next to a float of the same magnitude: equality is
        // exact, never "close enough"
        (json!(1.0000000000000002), "1.0000000000000002".into()),
        (json!(0.9999999999999999), "0.9999999999999999".into()),
        (json!(4503599627370497i64), "4503599627370497".into()),
        (json!(4503599627370496.0), "4503599627370496.0".into()),
        // beyond the integer representations: float literals at and above 2^63 / 2^64, document integers stored as
        // u64, and their float-stored equals (all distinct values here are distinct as f64)
        (json!(1e19), "1e19".into()),
        (json!(2e19), "2E19".into()),
        (json!(9223372036854775808u64), "9223372036854775808.0".into()),
        (json!(18446744073709551615u64), "1.8446744073709552e19".into()),
        (json!(-1e19), "-1e19".into()),
    ];
    if thorough {
        v.extend([
            (json!(0.0), "0.0".into()),
            (json!(-1.5), "-1.5".into()),
            (json!(1.9999999999999998), "1.9999999999999998".into()),
            (json!(4503599627370495.5), "4503599627370495.5".into()),
            (json!(-4503599627370497i64), "-4503599627370497".into()),
            (json!(-4503599627370496.0), "-4503599627370496.0".into()),
            (json!(9007199254740990i64), "9007199254740990".into()),
            (json!(-9007199254740991i64), "-9007199254740991".into()),
            (json!(1e300), "1e300".into()),
            (json!(-1e300), "-1E+300".into()),
            (json!(123456789.125), "123456789.125".into()),
            (json!(3), "3".into()),
            (json!(2.5e-1), "2.5e-1".into()),
        ]);
    }
    v
}

pub fn strings(thorough: bool) -> Vec<String> {
    let mut v: Vec<String> = vec!["".into(), "a".into(), "b".into(), "A".into(), "aa".into(), "\u{e9}".into(), "\u{ffff}".into(), "\u{10000}".into(), "a".repeat(64), format!("{}b", "a".repeat(63)), "a".repeat(65)];
    if thorough {
        v.extend(["1".to_string(), "true".into(), "null".into(), "ab".into(), " ".into(), "a ".into(), "\u{7f}".into(), "\u{10ffff}".into(), "\u{e000}".into(), "\u{d7ff}".into()]);
    }
    v
}

pub fn containers(thorough: bool) -> Vec<Value> {
    let mut v = vec![
        json!([]),
        json!([1]),
        json!([1.0]),
        json!([1, 2]),
        json!([[1]]),
        json!({}),
        json!({"a": 1}),
        json!({"a": 1.0}),
        json!({"a": 1, "b": 2}),
        json!({"b": 2, "a": 1}),
        // member names that look like query text: names of compared objects are matched as they are
        json!({"'a'": 1}),
        json!({"\"a\"": 1}),
        json!({"'a'": 1, "a": 2}),
        json!([{"''": 1}]),
    ];
    if thorough {
        v.extend([
            json!([2, 1]),
            json!([null]),
            json!(["a"]),
            json!([[]]),
            json!([{}]),
            json!({"a": [1.0, {"b": 2.0}]}),
            json!({"a": [1, {"b": 2}]}),
            json!({"a": null}),
            json!({"b": 1}),
            json!([1, [2, [3.0]]]),
            json!([1, [2, [3]]]),
            json!([1e-20]),
            json!([0]),
        ]);
    }
    v
}

/// the value universe; `None` stands for "nothing" (absent member)
pub fn universe(thorough: bool) -> Vec<Option<Value>> {
    let mut v: Vec<Option<Value>> = vec![None, Some(json!(null)), Some(json!(true)), Some(json!(false))];
    v.extend(numbers(thorough).into_iter().map(|x| Some(x.0)));
    v.extend(strings(thorough).into_iter().map(|s| Some(json!(s))));
    v.extend(containers(thorough).into_iter().map(Some));
    v
}

/// scalar literals: (source text, value)
pub fn literals(thorough: bool) -> Vec<(String, Value)> {
    let mut v: Vec<(String, Value)> = vec![("null".into(), json!(null)), ("true".into(), json!(true)), ("false".into(), json!(false))];
    v.extend(numbers(thorough).into_iter().map(|(val, txt)| (txt, val)));
    v.extend(strings(thorough).into_iter().map(|s| (quote_single(&s), json!(s))));
    v
}

fn obj(members: &[(&str, &Option<Value>)]) -> Value {
    let mut m = Map::new();
    for (k, v) in members {
        if let Some(v) = v {
            m.insert(k.to_string(), v.clone());
        }
    }
    Value::Object(m)
}

fn parse(q: &str) -> Query {
    rfc_parse(q).unwrap_or_else(|e| panic!("C04 query {:?} must be valid: {:?}", q, e)).0
}

fn wrap_arr(v: Vec<Value>) -> Value {
    Value::Array(v)
}

/// laws on observed truth values for one operand form: kept[op] = set of kept cell indices
fn laws(acc: &mut Acc, kept: &[Option<Vec<u32>>; 6], ncells: usize, mirror: &dyn Fn(usize) -> Option<usize>, both_ordered: &dyn Fn(usize) -> bool, what: &str, q_of: &dyn Fn(Op) -> String, cell: &dyn Fn(usize) -> Value) {
    let set = |o: Op| -> Option<Vec<bool>> {
        let idx = Op::ALL.iter().position(|x| *x == o).unwrap();
        kept[idx].as_ref().map(|ids| {
            let mut b = vec![false; ncells];
            for i in ids {
                // cell i is node id i+1 (node 0 is the root array) only when cells are scalars-free; ids are mapped by the caller
                b[*i as usize] = true;
            }
            b
        })
    };
    let (eq, ne, lt, le, gt, ge) = match (set(Op::Eq), set(Op::Ne), set(Op::Lt), set(Op::Le), set(Op::Gt), set(Op::Ge)) {
        (Some(a), Some(b), Some(c), Some(d), Some(e), Some(f)) => (a, b, c, d, e, f),
        _ => return,
    };
    for i in 0..ncells {
        acc.bump("law_instances", 1);
        let mut bad = vec![];
        if ne[i] == eq[i] {
            bad.push("`!=` is not the negation of `==`");
        }
        if le[i] != (lt[i] || eq[i]) {
            bad.push("`<=` is not `<` or `==`");
        }
        if ge[i] != (gt[i] || eq[i]) {
            bad.push("`>=` is not `>` or `==`");
        }
        if let Some(j) = mirror(i) {
            if gt[i] != lt[j] {
                bad.push("`>` is not the mirror image of `<`");
            }
        }
        if both_ordered(i) && (lt[i] as u8 + eq[i] as u8 + gt[i] as u8) != 1 {
            bad.push("trichotomy: not exactly one of `<`, `==`, `>` holds for two numbers / two strings");
        }
        for b in bad {
            acc.viol(
                format!("{} cell {}: {} (observed == {} != {} < {} <= {} > {} >= {})", what, i, b, eq[i], ne[i], lt[i], le[i], gt[i], ge[i]),
                json!({"kind": "law", "class": format!("law: {}", b), "form": what, "cell": cell(i), "mirror_cell": mirror(i).map(|j| cell(j)), "ordered": both_ordered(i),
                       "queries": Op::ALL.iter().map(|o| q_of(*o)).collect::<Vec<_>>()}),
            );
        }
    }
}

fn is_num(v: &Option<Value>) -> bool {
    matches!(v, Some(Value::Number(_)))
}
fn is_str(v: &Option<Value>) -> bool {
    matches!(v, Some(Value::String(_)))
}

/// map the node ids returned for a packed array document to cell indices (cell i = element i of the root array)
fn cell_indices(doc_cells: &[Value], ids: &[u32]) -> Vec<u32> {
    // node ids are assigned in pre-order: compute the id of each top-level element
    let mut first = vec![];
    let mut next = 1u32;
    fn size(v: &Value) -> u32 {
        match v {
            Value::Array(a) => 1 + a.iter().map(size).sum::<u32>(),
            Value::Object(m) => 1 + m.values().map(size).sum::<u32>(),
            _ => 1,
        }
    }
    for c in doc_cells {
        first.push(next);
        next += size(c);
    }
    ids.iter().filter_map(|id| first.binary_search(id).ok().map(|x| x as u32)).collect()
}

pub fn run(tier: &str) -> i32 {
    let run = Run::new("C04", tier);
    let th = run.thorough();
    let uni = universe(th);
    let lits = literals(th);
    let n = uni.len();
    let mut jobs: Vec<Box<dyn Fn(&Run, &mut Acc) + Send + Sync>> = vec![];

    // form 1: @.x OP @.y ; form 4: @[0] OP @[1] ; function forms
    {
        let mut cells_xy = vec![];
        let mut cells_idx = vec![];
        for a in &uni {
            for b in &uni {
                cells_xy.push(obj(&[("x", a), ("y", b)]));
                // absent first operand: compare @[1] with @[2] on a shorter array
                let mut arr = vec![json!("pad")];
                match (a, b) {
                    (Some(a), Some(b)) => {
                        arr.push(a.clone());
                        arr.push(b.clone());
                    }
                    (Some(a), None) => arr.push(a.clone()),
                    _ => {}
                }
                cells_idx.push((Value::Array(arr), a.is_none() && b.is_some()));
            }
        }
        let uni1 = uni.clone();
        let forms: Vec<(&str, String, String)> = vec![
            ("@.x OP @.y", "@.x".into(), "@.y".into()),
            ("@['x'] OP @[\"y\"]", "@['x']".into(), "@[\"y\"]".into()),
            ("value(@.x) OP value(@.y)", "value(@.x)".into(), "value(@.y)".into()),
            ("value(@.x) OP @.y", "value(@.x)".into(), "@.y".into()),
            ("length(@.x) OP length(@.y)", "length(@.x)".into(), "length(@.y)".into()),
            ("length(@.x) OP @.y", "length(@.x)".into(), "@.y".into()),
            ("count(@.x) OP count(@.y)", "count(@.x)".into(), "count(@.y)".into()),
            ("count(@.x.*) OP length(@.y)", "count(@.x.*)".into(), "length(@.y)".into()),
            // "nothing" in its different internal guises on either side: an absent member, an empty slice, a filter
            // without a hit, a step after a multi-node step, several nodes
            ("@.x OP value(@.y[5:])", "@.x".into(), "value(@.y[5:])".into()),
            ("value(@.y[5:]) OP @.x", "value(@.y[5:])".into(), "@.x".into()),
            ("@.x OP value(@.y[?@==7777])", "@.x".into(), "value(@.y[?@==7777])".into()),
            ("@.x OP value(@.y.*.zz)", "@.x".into(), "value(@.y.*.zz)".into()),
            ("@.x OP value(@..zz)", "@.x".into(), "value(@..zz)".into()),
            ("value(@.x[0:0]) OP value(@.zz)", "value(@.x[0:0])".into(), "value(@.zz)".into()),
            ("value(@.x.*) OP @.y", "value(@.x.*)".into(), "@.y".into()),
            ("@.x OP value(@.y[0:1])", "@.x".into(), "value(@.y[0:1])".into()),
            ("length(value(@.x[5:])) OP length(@.y)", "length(value(@.x[5:]))".into(), "length(@.y)".into()),
        ];
        for (what, l, r) in forms {
            let cells = cells_xy.clone();
            let uni2 = uni1.clone();
            let plain = what == "@.x OP @.y" || what.starts_with("@['x']") || what.starts_with("value(@.x) OP value");
            let symmetric = plain || what.starts_with("length(@.x) OP length") || what.starts_with("count(@.x) OP count");
            jobs.push(Box::new(move |run, acc| {
                let n = uni2.len();
                let mut kept: [Option<Vec<u32>>; 6] = Default::default();
                for (k, op) in Op::ALL.iter().enumerate() {
                    let q = format!("$[?{}{}{}]", l, op.text(), r);
                    let ast = parse(&q);
                    if let Some(ids) = packed(run, acc, &q, &ast, &cells, &wrap_arr, what) {
                        let ci = cell_indices(&cells, &ids);
                        acc.nontrivial += ci.len() as u64;
                        acc.sample(|| json!({"query": q, "cells": cells.len(), "kept": ci.len()}));
                        kept[k] = Some(ci);
                    }
                }
                let u = &uni2;
                laws(
                    acc,
                    &kept,
                    cells.len(),
                    &|i| if symmetric { Some((i % n) * n + i / n) } else { None },
                    &|i| plain && ((is_num(&u[i / n]) && is_num(&u[i % n])) || (is_str(&u[i / n]) && is_str(&u[i % n]))),
                    what,
                    &|op| format!("$[?{}{}{}]", l, op.text(), r),
                    &|i| cells[i].clone(),
                );
            }));
        }
        // index form
        let cells: Vec<Value> = cells_idx.iter().map(|x| x.0.clone()).collect();
        let skip: Vec<bool> = cells_idx.iter().map(|x| x.1).collect();
        jobs.push(Box::new(move |run, acc| {
            for op in Op::ALL {
                let q = format!("$[?@[1]{}@[2]]", op.text());
                let ast = parse(&q);
                // (nothing, value) cannot be expressed with two adjacent indices; those cells are (nothing, nothing) duplicates
                let _ = &skip;
                if let Some(ids) = packed(run, acc, &q, &ast, &cells, &wrap_arr, "@[1] OP @[2]") {
                    acc.nontrivial += ids.len() as u64;
                }
                let q = format!("$[?@[-1]{}@[-2]]", op.text());
                let ast = parse(&q);
                if let Some(ids) = packed(run, acc, &q, &ast, &cells, &wrap_arr, "@[-1] OP @[-2]") {
                    acc.nontrivial += ids.len() as u64;
                }
            }
        }));
    }
    // operands whose reported paths would render to the same text under sloppy path rendering (quotes inside names)
    {
        let uni2 = uni.clone();
        jobs.push(Box::new(move |run, acc| {
            let mut cells = vec![];
            for a in &uni2 {
                for b in &uni2 {
                    cells.push(obj(&[("a", a), ("\"a\"", b), ("'a'", a)]));
                }
            }
            for op in Op::ALL {
                for (l, r) in [("@[\"a\"]", "@['\"a\"']"), ("@['\"a\"']", "@.a"), ("value(@[\"a\"])", "@['\"a\"']")] {
                    let q = format!("$[?{}{}{}]", l, op.text(), r);
                    let ast = parse(&q);
                    if let Some(ids) = packed(run, acc, &q, &ast, &cells, &wrap_arr, "operands with quote characters in their names") {
                        acc.nontrivial += ids.len() as u64;
                    }
                }
            }
        }));
    }
    // form 2: @.x OP literal and literal OP @.x
    for (txt, _) in lits.clone() {
        let cells: Vec<Value> = uni.iter().map(|a| obj(&[("x", a)])).collect();
        jobs.push(Box::new(move |run, acc| {
            for op in Op::ALL {
                for q in [format!("$[?@.x{}{}]", op.text(), txt), format!("$[?{}{}@.x]", txt, op.text()), format!("$[? @.x {} {} ]", op.text(), txt)] {
                    let ast = parse(&q);
                    if let Some(ids) = packed(run, acc, &q, &ast, &cells, &wrap_arr, "@.x OP literal") {
                        acc.nontrivial += ids.len() as u64;
                    }
                }
            }
        }));
    }
    // form 3: $.k OP @.x (root operand), both sides, with the root member absent too
    for a in uni.clone() {
        let cells: Vec<Value> = uni.iter().map(|b| obj(&[("x", b)])).collect();
        jobs.push(Box::new(move |run, acc| {
            let wrap = |v: Vec<Value>| {
                let mut m = Map::new();
                if let Some(a) = &a {
                    m.insert("k".into(), a.clone());
                    // the same member name at the root as in the children: the two operands are different nodes
                    m.insert("x".into(), a.clone());
                }
                m.insert("arr".into(), Value::Array(v));
                Value::Object(m)
            };
            for op in Op::ALL {
                for q in [format!("$.arr[?$.k{}@.x]", op.text()), format!("$.arr[?@.x{}$['k']]", op.text()), format!("$.arr[?@.x{}$.x]", op.text()), format!("$.arr[?$['x']{}@['x']]", op.text())] {
                    let ast = parse(&q);
                    if let Some(ids) = packed(run, acc, &q, &ast, &cells, &wrap, "$.k OP @.x") {
                        acc.nontrivial += ids.len() as u64;
                    }
                }
            }
        }));
    }
    // form 6: literal OP literal (the filter keeps the single element or not)
    {
        let lits2 = lits.clone();
        jobs.push(Box::new(move |run, acc| {
            let doc = json!([0]);
            let dc = DocCtx::new(&doc);
            for (a, _) in &lits2 {
                for (b, _) in &lits2 {
                    for op in Op::ALL {
                        let q = format!("$[?{}{}{}]", a, op.text(), b);
                        let ast = parse(&q);
                        if let super::common::Outcome::Agree(k) = check_case(run, acc, &q, &ast, &dc, Mode::Nodes, "literal OP literal") {
                            acc.nontrivial += k as u64;
                        }
                    }
                }
            }
        }));
    }
    // escaped string literals against their values (decoding of literals)
    {
        jobs.push(Box::new(move |run, acc| {
            let bs = '\\';
            let vals: Vec<String> = vec!["it's".into(), "\n".into(), "A".into(), "\\".into(), "/".into(), "\"".into(), "\u{e9}".into(), "\u{1d11e}".into(), "\t".into()];
            let spell: Vec<(String, &str)> = vec![
                (format!("'it{}'s'", bs), "it's"),
                ("\"it's\"".to_string(), "it's"),
                (format!("'{}n'", bs), "\n"),
                (format!("\"{}n\"", bs), "\n"),
                (format!("'{}u0041'", bs), "A"),
                (format!("'{}{}'", bs, bs), "\\"),
                (format!("'{}/'", bs), "/"),
                ("'/'".to_string(), "/"),
                (format!("\"{}\"\"", bs), "\""),
                ("'\"'".to_string(), "\""),
                (format!("'{}u00e9'", bs), "\u{e9}"),
                (format!("'{}u00E9'", bs), "\u{e9}"),
                (format!("'{}uD834{}uDD1E'", bs, bs), "\u{1d11e}"),
                (format!("'{}t'", bs), "\t"),
            ];
            let cells: Vec<Value> = vals.iter().map(|v| json!({ "x": v })).collect();
            for (lit, _) in &spell {
                for op in Op::ALL {
                    let q = format!("$[?@.x{}{}]", op.text(), lit);
                    match rfc_parse(&q) {
                        Ok((ast, _)) => {
                            if let Some(ids) = packed(run, acc, &q, &ast, &cells, &wrap_arr, "escaped string literal") {
                                acc.nontrivial += ids.len() as u64;
                            }
                        }
                        Err(e) => panic!("{} must be valid: {:?}", q, e),
                    }
                }
            }
        }));
    }
    let acc = jobs
        .par_iter()
        .map(|j| {
            let mut acc = Acc::new();
            j(&run, &mut acc);
            acc
        })
        .reduce(Acc::new, Acc::merge);
    run.finish(
        acc,
        "one cell = one (left operand value, right operand value, operator, operand form); all cells of one operand form and operator are packed into one document (one array element per value pair) and decided by one filter query, disagreeing cells are re-checked alone; oracle = RFC 9535 2.3.5.2.2 comparison in the reference model plus the algebraic laws (!= is not ==, <= is < or ==, > mirrors <, trichotomy) on the observed truth values; non-trivial = cells for which the comparison is true",
        &[
            "document numbers are finite; outside +-(2^53-1) only values whose comparison is decided by their f64 value (I-JSON) are used; distinct values of the universe are distinct as f64",
            "integer literals outside the I-JSON range are not part of the universe",
        ],
        true,
        json!({"value_universe": n, "scalar_literals": lits.len(), "cell_table": format!("{}x{}x6", n, n)}),
    )
}


/// replay of a law violation: the six operators on the recorded cell (and its mirror cell), laws re-checked
pub fn replay_law(case: &Value, _run: &Run) -> Acc {
    let mut acc = Acc::new();
    let qs: Vec<String> = case["queries"].as_array().map(|a| a.iter().filter_map(|x| x.as_str().map(String::from)).collect()).unwrap_or_default();
    if qs.len() != 6 {
        return acc;
    }
    let mut cells = vec![case["cell"].clone()];
    if !case["mirror_cell"].is_null() {
        cells.push(case["mirror_cell"].clone());
    }
    let doc = Value::Array(cells.clone());
    let dc = DocCtx::new(&doc);
    let mut truth: Vec<Vec<bool>> = vec![];
    for q in &qs {
        let out = crate::imp::run_with_path(q, &doc, &dc.am);
        println!("{} on {} -> {:?}", q, doc, out);
        let ids: Vec<u32> = match out {
            crate::imp::ImplOut::Ok(v) => v.iter().map(|x| x.0).collect(),
            _ => vec![],
        };
        let ci = cell_indices(&cells, &ids);
        truth.push((0..cells.len()).map(|i| ci.contains(&(i as u32))).collect());
    }
    // order of Op::ALL: Eq Ne Lt Le Gt Ge
    let (eq, ne, lt, le, gt, ge) = (truth[0][0], truth[1][0], truth[2][0], truth[3][0], truth[4][0], truth[5][0]);
    let mut bad = vec![];
    if ne == eq {
        bad.push("`!=` is not the negation of `==`");
    }
    if le != (lt || eq) {
        bad.push("`<=` is not `<` or `==`");
    }
    if ge != (gt || eq) {
        bad.push("`>=` is not `>` or `==`");
    }
    if cells.len() == 2 && gt != truth[2][1] {
        bad.push("`>` is not the mirror image of `<`");
    }
    if case["ordered"].as_bool().unwrap_or(false) && (lt as u8 + eq as u8 + gt as u8) != 1 {
        bad.push("trichotomy");
    }
    for b in bad {
        acc.viol(format!("{} on cell {}: {}", case["form"], case["cell"], b), case.clone());
    }
    acc
}
