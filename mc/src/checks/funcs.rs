//! C10: length, count, value, match, search.

use super::common::{packed, packed_on, DocCtx};
use super::compare;
use crate::acc::{Acc, Run};
use crate::model::parse::rfc_parse;
use crate::model::render::quote_single;
use rayon::prelude::*;
use serde_json::{json, Map, Value};
use std::collections::BTreeSet;

fn wrap_arr(v: Vec<Value>) -> Value {
    Value::Array(v)
}

fn parse(q: &str) -> crate::model::ast::Query {
    rfc_parse(q).unwrap_or_else(|e| panic!("C10 query {:?} must be valid: {:?}", q, e)).0
}

/// regular expressions by size (number of AST nodes), as pattern strings
pub fn patterns(max_size: usize) -> Vec<String> {
    // by_size[n] = (pattern, kind) ; kind: 0 atom-like (can take a quantifier, can be concatenated), 1 concatenation, 2 alternation, 3 quantified
    let atoms = ["a", "b", ".", "[ab]", "[^a]", "\\.", "^", "$"];
    let mut by_size: Vec<Vec<(String, u8)>> = vec![vec![]; max_size + 1];
    if max_size >= 1 {
        for a in atoms {
            by_size[1].push((a.to_string(), 0));
        }
    }
    for n in 2..=max_size {
        let mut cur: Vec<(String, u8)> = vec![];
        // quantifier on an atom or a group
        for (p, k) in &by_size[n - 1] {
            if p == "^" || p == "$" {
                continue;
            }
            let base = if *k == 0 { p.clone() } else if *k == 3 { continue } else { continue };
            for q in ["*", "+", "?"] {
                cur.push((format!("{}{}", base, q), 3));
            }
        }
        // group
        for (p, _) in &by_size[n - 1] {
            cur.push((format!("({})", p), 0));
        }
        // binary: sizes i + j + 1 = n
        for i in 1..n - 1 {
            let j = n - 1 - i;
            if j < 1 {
                continue;
            }
            for (a, ka) in &by_size[i] {
                for (b, kb) in &by_size[j] {
                    // concatenation: operands must not be alternations (they would need a group, counted separately)
                    if *ka != 2 && *kb != 2 {
                        cur.push((format!("{}{}", a, b), 1));
                    }
                    cur.push((format!("{}|{}", a, b), 2));
                }
            }
        }
        let mut seen = BTreeSet::new();
        cur.retain(|(p, _)| seen.insert(p.clone()));
        by_size[n] = cur;
    }
    let mut out: Vec<String> = vec![String::new()];
    let mut seen = BTreeSet::new();
    seen.insert(String::new());
    for lvl in by_size {
        for (p, _) in lvl {
            if seen.insert(p.clone()) {
                out.push(p);
            }
        }
    }
    out
}

pub fn invalid_patterns() -> Vec<String> {
    ["(", ")", "[", "*a", "a{2,1}", "\\", "a(", "(a", "[b-a]", "+", "?", "a|*", "[a", "(a|b"].into_iter().map(String::from).collect()
}

fn subjects() -> Vec<Value> {
    let mut v: Vec<Value> = vec![json!("")];
    let mut level = vec![String::new()];
    for _ in 0..3 {
        let mut next = vec![];
        for s in &level {
            for c in ["a", "b"] {
                next.push(format!("{}{}", s, c));
            }
        }
        for s in &next {
            v.push(json!(s));
        }
        level = next;
    }
    for s in ["caf\u{e9}", "\u{e9}", "\u{17c}\u{f3}\u{142}w", "\u{e9}a", "a\u{e9}", "\u{10000}", "a.b", "a$", ".", "^a", "ab.", "c", "A", "aXb", "a|b", "'a'", "\"a\"", "a'", "'", "\"", "a\\b", "a\\.b", "\\"] {
        v.push(json!(s));
    }
    v.extend([json!(1), json!(null), json!(true), json!(["a"]), json!({"a": "a"})]);
    v
}

fn regex_part(run: &Run, max_size: usize) -> Acc {
    let mut pats = patterns(max_size);
    pats.extend(invalid_patterns());
    pats.extend(["(a)|(b)", "(ab)|(ba)", "(a)(b)", "(a)|b", "a|(b)", "(a|b)|(ab)", "(a)|(b)|(ab)", "(a)?|(b)(a)", "(a)*|(b)+"].iter().map(|s| s.to_string()));
    pats.extend(["a{2}", "a{1,2}b", "(ab){2,}", "[a-b]+", "[^ab]", "a\\|b", "\\(a\\)", "(a|b)*abb", "a.*b", ".*", ".+", "(a*)*", "(a|)+", "\\\\", "a\\\\.b", "[.]", "[\\.]", "'a'", "\"a\"", "a'", "'", "\"", "'a|b'", "a\"b"].iter().map(|s| s.to_string()));
    // non-ASCII characters in classes, alone and in alternations, against ASCII and non-ASCII subjects (an engine mode
    // chosen from the subject or the pattern must not change the answer)
    pats.extend(["[^\u{e9}]+", "[^\u{e9}]", "[\u{e9}\u{e8}]?a", "[a-z\u{430}-\u{44f}]+", "\u{e9}|a", "[\u{e9}]*", "([^\u{e9}])+", "[^\u{10000}]*", "\u{e9}?a*", "[^\u{e9}]*b", ".\u{e9}", "[a\u{e9}]b*", "[^a\u{e9}]"].iter().map(|s| s.to_string()));
    // for every pattern with a backslash also the text its string-literal spelling has between the quotes (every
    // backslash doubled), used as a pattern from the document: the same text then reaches the evaluator once as a
    // literal and once as a document value, with different meanings
    let doubled: Vec<String> = pats.iter().filter(|p| p.contains('\\')).map(|p| p.replace('\\', "\\\\")).collect();
    pats.extend(doubled);
    let mut seen = BTreeSet::new();
    pats.retain(|p| seen.insert(p.clone()));
    let subs = subjects();
    let subs_wrapped: Vec<Value> = subs.iter().map(|s| json!({ "s": s })).collect();
    pats.par_iter()
        .map(|p| {
            let mut acc = Acc::new();
            acc.bump("patterns", 1);
            for f in ["match", "search"] {
                // pattern from the document
                let wrap = |v: Vec<Value>| {
                    let mut m = Map::new();
                    m.insert("p".into(), json!(p));
                    m.insert("s".into(), Value::Array(v));
                    Value::Object(m)
                };
                let q = format!("$.s[?{}(@,$.p)]", f);
                let ast = parse(&q);
                if let Some(ids) = packed(run, &mut acc, &q, &ast, &subs, &wrap, &format!("{} pattern from document", f)) {
                    acc.nontrivial += ids.len() as u64;
                    if !ids.is_empty() {
                        acc.sample(|| json!({"query": q, "pattern": p, "subjects": subs.len(), "matching": ids.len()}));
                    }
                }
                // pattern and subject through value(): ValueType function results as arguments
                let q = format!("$.s[?{}(value(@),value($.p))]", f);
                let ast = parse(&q);
                if let Some(ids) = packed(run, &mut acc, &q, &ast, &subs, &wrap, &format!("{} arguments through value()", f)) {
                    acc.nontrivial += ids.len() as u64;
                }
                let q = format!("$.s[?{}(@,value($..p))]", f);
                let ast = parse(&q);
                if let Some(ids) = packed(run, &mut acc, &q, &ast, &subs, &wrap, &format!("{} pattern through value() of a descendant query", f)) {
                    acc.nontrivial += ids.len() as u64;
                }
                // pattern as a literal, subject through a member
                let q = format!("$[?{}(@.s,{})]", f, quote_single(p));
                let ast = parse(&q);
                if let Some(ids) = packed(run, &mut acc, &q, &ast, &subs_wrapped, &wrap_arr, &format!("{} pattern literal", f)) {
                    acc.nontrivial += ids.len() as u64;
                }
                // negated, double-quoted literal
                let q = format!("$[?!{}(@.s, {})]", f, crate::model::render::quote_double(p));
                let ast = parse(&q);
                if let Some(ids) = packed(run, &mut acc, &q, &ast, &subs_wrapped, &wrap_arr, &format!("!{} pattern literal", f)) {
                    acc.nontrivial += ids.len() as u64;
                }
            }
            // the subject as the pattern and vice versa: every subject string used as a pattern on the pattern string
            acc
        })
        .reduce(Acc::new, Acc::merge)
}

fn value_part(run: &Run, thorough: bool) -> Acc {
    let uni = compare::universe(thorough);
    // cells: {"x": v} for every value and absent
    let cells: Vec<Value> = uni
        .iter()
        .map(|v| {
            let mut m = Map::new();
            if let Some(v) = v {
                m.insert("x".into(), v.clone());
            }
            Value::Object(m)
        })
        .collect();
    let doc = Value::Array(cells.clone());
    let dc = DocCtx::new(&doc);
    let mut qs: Vec<String> = vec![];
    for n in ["0", "1", "2", "3", "1.0", "-1", "null", "'a'", "true"] {
        for op in ["==", "!=", "<", "<=", ">", ">="] {
            qs.push(format!("$[?length(@.x){}{}]", op, n));
            qs.push(format!("$[?{}{}length(@.x)]", n, op));
            qs.push(format!("$[?count(@.x){}{}]", op, n));
            qs.push(format!("$[?count(@.x.*){}{}]", op, n));
            qs.push(format!("$[?count(@.x..*){}{}]", op, n));
            qs.push(format!("$[?count(@.x[0:0]){}{}]", op, n));
            qs.push(format!("$[?count(@.x[?@==1]){}{}]", op, n));
            qs.push(format!("$[?count(@..x){}{}]", op, n));
            qs.push(format!("$[?count($[0,1].x){}{}]", op, n));
            qs.push(format!("$[?value(@.x){}{}]", op, n));
            qs.push(format!("$[?value(@.x.*){}{}]", op, n));
            qs.push(format!("$[?value(@.x[0,0]){}{}]", op, n));
            qs.push(format!("$[?value(@.x..a){}{}]", op, n));
            qs.push(format!("$[?length(value(@.x.*)){}{}]", op, n));
            qs.push(format!("$[?length(value(@.x)){}{}]", op, n));
            qs.push(format!("$[?length(@.x.a){}{}]", op, n));
            qs.push(format!("$[?length(@.x[0]){}{}]", op, n));
        }
    }
    for (lit, _) in compare::literals(thorough) {
        for n in ["0", "1", "2"] {
            qs.push(format!("$[?length({})=={}]", lit, n));
        }
        qs.push(format!("$[?length({})==length(@.x)]", lit));
        qs.push(format!("$[?value(@.x)=={}]", lit));
    }
    for n in ["0", "1", "2", "3"] {
        for q in ["count($[?@.x])", "count($[?@.x==1])", "count($..[?@==1])", "count($[?@.x].x)", "length(value($[?@.x==true]))", "count($[0:2][?@==1])", "count($[*][?@==1])"] {
            qs.push(format!("$[?{}=={}]", q, n));
            qs.push(format!("$[?{}<{}]", q, n));
        }
    }
    // value() / length() / count() over "no node" in each of its guises (absent member, index out of range, wildcard
    // of an empty container, empty slice, filter without a hit, a step after a multi-node step) and over several nodes,
    // compared with nothing, with each other and with values
    {
        let nothings = ["@.zz", "@.x[9]", "@.x.*", "@.x[5:]", "@.x[0:0]", "@.x[?@==7777]", "@.x.*.zz", "@.x..zz", "@..zz", "@.x[0,0].zz", "@.x[*]", "@.x[0:2]", "$[?@.zz==1]"];
        for a in nothings {
            for op in ["==", "!=", "<=", ">"] {
                qs.push(format!("$[?value({}){}@.zz]", a, op));
                qs.push(format!("$[?@.zz{}value({})]", op, a));
                qs.push(format!("$[?value({}){}@.x]", a, op));
                qs.push(format!("$[?@.x{}value({})]", op, a));
                qs.push(format!("$[?value({}){}value(@.zz)]", a, op));
                qs.push(format!("$[?length(value({})){}0]", a, op));
                qs.push(format!("$[?count({}){}0]", a, op));
            }
            for b in nothings {
                qs.push(format!("$[?value({})==value({})]", a, b));
            }
            qs.push(format!("$[?length(value({}))>=0]", a));
            qs.push(format!("$[?length(value({}))==length(@.zz)]", a));
            qs.push(format!("$[?match(value({}),'.*')]", a));
            qs.push(format!("$[?!search(value({}),'')]", a));
        }
    }
    for q in ["$[?$[?@.x]]", "$[?!$[?@.x==7777]]", "$[?$..[?@==1]]", "$[?value($[?@.x==null].x)==null]", "$[?$[?@.x==true].x]", "$[?@.x==value($[?@.x=='a'].x)]"] {
        qs.push(q.to_string());
    }
    for q in [
        "$[?length(@.x)==length(@.x)]",
        "$[?length(@.x)==count(@.x.*)]",
        "$[?count(@.x.*)==count(@.x[*])]",
        "$[?value(@.x)==@.x]",
        "$[?value(@.x.*)==@.x[0]]",
        "$[?count(@.*)==1]",
        "$[?count(@.*)==0]",
        "$[?length(@)==1]",
        "$[?length(@)==0]",
        "$[?match(value(@.x.*),'a')]",
        "$[?search(value(@.x[0]),'a')]",
        "$[?match(@.x,@.x)]",
        "$[?search(@.x,@.x)]",
        "$[?match(@.x,'.*')]",
        "$[?search(@.x,'')]",
        "$[?match(@.x,'.')]",
        "$[?match(@.x,'..')]",
        "$[?match(@.x,'1')]",
        "$[?!match(@.x,'.*')]",
        "$[?match('a',@.x)]",
        "$[?search('aa',@.x)]",
        "$[?match(1,'1')]",
        "$[?match('1',1)]",
        "$[?match(null,'null')]",
        "$[?search(true,'true')]",
    ] {
        qs.push(q.to_string());
    }
    qs.par_iter()
        .map(|q| {
            let mut acc = Acc::new();
            let ast = parse(q);
            if let Some(ids) = packed_on(run, &mut acc, q, &ast, &cells, &wrap_arr, "length/count/value", &dc) {
                acc.nontrivial += ids.len() as u64;
                acc.sample(|| json!({"query": q, "cells": cells.len(), "kept": ids.len()}));
            }
            acc
        })
        .reduce(Acc::new, Acc::merge)
}

/// the argument reached through every kind of singular-query segment (name, bracketed name, non-negative and
/// negative index, in range and out of range, nested), in every parameter position
fn routes_part(run: &Run, thorough: bool) -> Acc {
    let uni = compare::universe(thorough);
    // cell: {"t": ["pad", v], "o": {"n": [v]}} ; for "nothing": {"t": ["pad"], "o": {"n": []}}
    let cells: Vec<Value> = uni
        .iter()
        .map(|v| match v {
            Some(v) => json!({"t": ["pad", v], "o": {"n": [v]}}),
            None => json!({"t": ["pad"], "o": {"n": []}}),
        })
        .collect();
    let wrap = |v: Vec<Value>| json!({"p": ["b", "a.*", "a"], "c": v});
    let doc = wrap(cells.clone());
    let dc = DocCtx::new(&doc);
    let args = ["@.t[1]", "@.t[-1]", "@.t[-2]", "@.t[-3]", "@.t[2]", "@['t'][-1]", "@.o.n[0]", "@.o.n[-1]", "@.o['n'][-1]", "@.o.n[-2]", "@[0]", "@[-1]", "$.c[0].t[-1]", "$.c[-1].t[-1]", "$.p[-1]", "$.p[-2]", "$.p[1]", "$.p[-4]"];
    let mut qs: Vec<String> = vec![];
    for a in args {
        for n in ["0", "1", "2", "3", "5"] {
            for op in ["==", "!=", "<", ">="] {
                qs.push(format!("$.c[?length({}){}{}]", a, op, n));
                qs.push(format!("$.c[?count({}){}{}]", a, op, n));
            }
        }
        qs.push(format!("$.c[?value({})==@.t[1]]", a));
        qs.push(format!("$.c[?length({})==length(@.t[1])]", a));
        qs.push(format!("$.c[?length(value({}))==1]", a));
        for f in ["match", "search"] {
            qs.push(format!("$.c[?{}({},'a.*')]", f, a));
            qs.push(format!("$.c[?{}({},'.')]", f, a));
            qs.push(format!("$.c[?!{}({},'a')]", f, a));
            qs.push(format!("$.c[?{}('a',{})]", f, a));
            qs.push(format!("$.c[?{}('ab',{})]", f, a));
            qs.push(format!("$.c[?{}(@.t[1],{})]", f, a));
            qs.push(format!("$.c[?{}({},$.p[-2])]", f, a));
            qs.push(format!("$.c[?{}(value({}),$.p[2])]", f, a));
        }
    }
    qs.par_iter()
        .map(|q| {
            let mut acc = Acc::new();
            let ast = parse(q);
            if let Some(ids) = packed_on(run, &mut acc, q, &ast, &cells, &wrap, "arguments reached through singular-query segments", &dc) {
                acc.nontrivial += ids.len() as u64;
                acc.sample(|| json!({"query": q, "cells": cells.len(), "kept": ids.len()}));
            }
            acc
        })
        .reduce(Acc::new, Acc::merge)
}

/// sizes around powers of two: strings of 1-, 2- and 4-byte characters (length counts characters), arrays and objects
fn sizes_part(run: &Run, thorough: bool) -> Acc {
    let mut sizes: Vec<usize> = vec![15, 16, 17, 31, 32, 33, 63, 64, 65, 255, 256, 257];
    if thorough {
        sizes.extend([1023, 1024, 1025, 65535, 65536, 65537]);
    }
    let mut cells: Vec<Value> = vec![];
    for &n in &sizes {
        cells.push(json!("a".repeat(n)));
        cells.push(json!("\u{e9}".repeat(n)));
        cells.push(json!("\u{1d11e}".repeat(n)));
        cells.push(json!(format!("{}b", "a".repeat(n - 1))));
        if n <= 1025 {
            cells.push(Value::Array((0..n).map(|i| json!(i)).collect()));
            cells.push(Value::Object((0..n).map(|i| (format!("k{}", i), json!(i))).collect()));
        }
    }
    let doc = Value::Array(cells.clone());
    let dc = DocCtx::new(&doc);
    let mut qs: Vec<String> = vec![];
    for &n in &sizes {
        for op in ["==", "<", ">="] {
            qs.push(format!("$[?length(@){}{}]", op, n));
            qs.push(format!("$[?count(@.*){}{}]", op, n));
            qs.push(format!("$[?count(@[*]){}length(@)]", op));
        }
        qs.push(format!("$[?length(@)=={}.0]", n));
    }
    for q in ["$[?match(@,'a*')]", "$[?match(@,'.*')]", "$[?search(@,'ab')]", "$[?match(@,'a*b')]", "$[?search(@,'aa')]", "$[?match(@,'[^a]*')]", "$[?length(@)==length(value(@))]"] {
        qs.push(q.to_string());
    }
    qs.par_iter()
        .map(|q| {
            let mut acc = Acc::new();
            let ast = parse(q);
            if let Some(ids) = packed_on(run, &mut acc, q, &ast, &cells, &wrap_arr, "sizes around powers of two", &dc) {
                acc.nontrivial += ids.len() as u64;
            }
            acc
        })
        .reduce(Acc::new, Acc::merge)
}

pub fn run(tier: &str) -> i32 {
    let run = Run::new("C10", tier);
    let th = run.thorough();
    let size = if th { 5 } else { 4 };
    // the reference matcher is validated against the regex crate (an independent, mature engine) on the
    // whole pattern universe before it is used as the oracle
    let mut bad = 0;
    let mut checked = 0u64;
    for p in patterns(size) {
        if let Ok(re) = crate::model::regex_ref::parse(&p) {
            let full = match regex::Regex::new(&format!("^(?:{})$", p)) {
                Ok(r) => r,
                Err(_) => {
                    eprintln!("MACHINERY: regex_ref accepts {:?}, the regex crate does not", p);
                    bad += 1;
                    continue;
                }
            };
            let part = regex::Regex::new(&p).unwrap();
            for s in subjects() {
                if let Some(s) = s.as_str() {
                    checked += 2;
                    if crate::model::regex_ref::full_match(&re, s) != full.is_match(s) || crate::model::regex_ref::search(&re, s) != part.is_match(s) {
                        if bad < 5 {
                            eprintln!("MACHINERY: regex_ref disagrees with the regex crate on {:?} / {:?}", p, s);
                        }
                        bad += 1;
                    }
                }
            }
        } else if regex::Regex::new(&p).is_ok() && crate::model::regex_ref::parse(&p) == Err(crate::model::regex_ref::ReErr::Invalid) {
            eprintln!("MACHINERY: regex_ref calls {:?} invalid, the regex crate accepts it", p);
            bad += 1;
        }
    }
    for p in invalid_patterns() {
        if regex::Regex::new(&p).is_ok() || crate::model::regex_ref::parse(&p) != Err(crate::model::regex_ref::ReErr::Invalid) {
            eprintln!("MACHINERY: {:?} is expected to be invalid in both engines", p);
            bad += 1;
        }
    }
    if bad > 0 {
        return 2;
    }
    let a = regex_part(&run, size);
    let b = value_part(&run, th);
    let mut acc = a.merge(b).merge(routes_part(&run, th)).merge(sizes_part(&run, th));
    acc.bump("oracle_cross_checks_against_regex_crate", checked);
    run.finish(
        acc,
        "regex: one cell = (pattern, subject, function, argument form): every pattern string of AST size <= s over {a, b, ., [ab], [^a], \\., ^, $, group, |, *, +, ?} plus an invalid set, x every subject over {a,b} up to length 3 plus special and non-string subjects, x match/search x pattern from the document / single-quoted literal / negated double-quoted literal; values: one cell = (query over length/count/value, value of the universe); routes: one cell = (function, parameter position, singular-query argument over names / bracketed names / positive, negative and out-of-range indices, value); oracle = reference model (backtracking matcher validated against the regex crate on the same universe at start-up); non-trivial = cells where the filter is true",
        &[
            "`^` and `$` are assertions (the dialect of the regex crate), not I-Regexp literals; subjects contain no line terminators",
            "constructs on which I-Regexp and the regex crate differ (nested quantifiers, `{` forms, class set operations) are outside the universe",
        ],
        true,
        json!({"max_pattern_size": size, "subjects": subjects().len()}),
    )
}
