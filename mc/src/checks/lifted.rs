//! Construct x context matrix: every selector of the per-document alphabet (names in every spelling, indices of both
//! signs, wildcard, slices, filters) placed in every syntactic position a segment can occupy - as a segment of the
//! query itself, of a filter's test query, of a function argument, of a comparison operand, under a descendant
//! segment, after a multi-node segment, inside a union - and decided against the reference model. The nodelist BFS
//! reaches a selector only as a top-level segment; the code that evaluates the same selector inside a filter, a
//! singular query or a function argument is separate code.

use super::common::{check_case, DocCtx, Mode, Outcome};
use crate::acc::{Acc, Run};
use crate::gen::alpha::{alphabet, AlphaSize};
use crate::model::ast::Sel;
use crate::model::parse::rfc_parse;
use crate::model::render;
use rayon::prelude::*;
use serde_json::{json, Value};

fn sel_text(s: &Sel) -> String {
    match s {
        Sel::Name { val, raw } => {
            if raw.starts_with('\'') || raw.starts_with('"') {
                raw.clone()
            } else {
                render::quote_single(val)
            }
        }
        other => {
            let mut o = String::new();
            render::sel(other, &mut o);
            o
        }
    }
}

/// the contexts; `{}` is the bracketed selector text. Templates that need a singular query are simply not valid
/// for other selectors and are skipped by the recogniser.
pub const CONTEXTS: [&str; 34] = [
    "$[?@[{}]]",
    "$[?!@[{}]]",
    "$[?count(@[{}])==1]",
    "$[?count(@[{}])==0]",
    "$[?count(@[{}])>1]",
    "$[?value(@[{}])==1]",
    "$[?value(@[{}])=='a']",
    "$[?@[{}]==1]",
    "$[?1==@[{}]]",
    "$[?@[{}]=='a']",
    "$[?@[{}]!=@[0]]",
    "$[?@[{}]<=$[{}]]",
    "$[?length(@[{}])==1]",
    "$[?length(@[{}])>=0]",
    "$[?match(@[{}],'a')]",
    "$[?search(@[{}],'.')]",
    "$[?search('a',@[{}])]",
    "$[?@.*[{}]]",
    "$[?@..[{}]]",
    "$[?count(@..[{}])>1]",
    "$[?@[{}][{}]]",
    "$[?@[{}].a]",
    "$[?@.a[{}]]",
    "$[?@[0][{}]==1]",
    "$[?length(@.a[{}])==1]",
    "$[?$[{}]]",
    "$[?count($[{}])>0]",
    "$[?$[{}]==@]",
    "$[?@[?@[{}]]]",
    "$[*][{}]",
    "$..[{}]",
    "$[*][{},'zz']",
    "$[{},{}]",
    "$[?@[{},0]]",
];

pub fn lifted(run: &Run, docs: &[Value], max_names: usize, mode: Mode) -> Acc {
    docs.par_iter()
        .map(|d| {
            let mut acc = Acc::new();
            let dc = DocCtx::new(d);
            let base = alphabet(d, AlphaSize::Singles, max_names, true).base;
            // the document itself and the document as the only element of an array (so that `@` ranges over it too)
            let wrapped = json!([d, d]);
            let wdc = DocCtx::new(&wrapped);
            for s in &base {
                // filters inside filters are the BFS alphabet's business; here the lifted selector is a plain one
                if matches!(s, Sel::Filter(_)) {
                    continue;
                }
                let t = sel_text(s);
                for c in CONTEXTS {
                    let q = c.replace("{}", &t);
                    let ast = match rfc_parse(&q) {
                        Ok((a, info)) if !info.unknown_fn && !info.big_literal => a,
                        _ => continue,
                    };
                    acc.transitions += 1;
                    for (ctx, class) in [(&dc, "construct x context"), (&wdc, "construct x context (document as an array element)")] {
                        if let Outcome::Agree(n) = check_case(run, &mut acc, &q, &ast, ctx, mode, class) {
                            if n > 0 {
                                acc.nontrivial += 1;
                            }
                        }
                    }
                }
            }
            acc.states += base.len() as u64;
            acc
        })
        .reduce(Acc::new, Acc::merge)
}

/// One parsed query (never re-parsed, never cloned) evaluated on every document of the panel in turn, each result
/// against the model: what the query learnt on one document must not leak into the next. The queries contain the
/// constructs whose outcome does not depend on the node under test (`$`-rooted tests, comparisons between two
/// `$`-rooted operands, functions of `$`-rooted queries, literals).
pub const PREPARED: [&str; 24] = [
    "$[?$.a]",
    "$[?!$.a]",
    "$[?$[0]]",
    "$[?!$[1]&&@]",
    "$[?$.a&&@.a]",
    "$[?$.*[?@.a]]",
    "$..[?$.a&&@==1]",
    "$[?$..a]",
    "$[?count($.*)>1]",
    "$[?count($..a)==1]",
    "$[?length($)>2]",
    "$[?value($.a)==1]",
    "$[?$.a==$.b]",
    "$[?$[0]==$[1]]",
    "$[?$.a!=1]",
    "$[?match($.p,'a.*')]",
    "$[?search($.p,$.p)]",
    "$[?@==$[0]]",
    "$[?@.a==$.a]",
    "$.*[?$[0]]",
    "$[?$[?@.a]]",
    "$[?!$[?@.a==1]||@.b]",
    "$[?(1==1)]",
    "$[?$]",
];

pub fn prepared(run: &Run, docs: &[Value], mode: Mode) -> Acc {
    use super::common::check_obs;
    PREPARED
        .par_iter()
        .map(|q| {
            let mut acc = Acc::new();
            let ast = rfc_parse(q).unwrap_or_else(|e| panic!("prepared query {} must be valid: {:?}", q, e)).0;
            let kept = match crate::imp::parse(q) {
                Ok(Ok(j)) => j,
                _ => return acc,
            };
            // forwards and backwards: every document is met after every kind of predecessor
            let mut prev: Option<&Value> = None;
            for d in docs.iter().chain(docs.iter().rev()) {
                let dc = DocCtx::new(d);
                let out = crate::imp::run_parsed(&kept, d, &dc.am);
                acc.transitions += 1;
                let mut tmp = Acc::new();
                match check_obs(run, &mut tmp, q, &ast, &dc, &out, mode, "prepared query over the panel") {
                    Outcome::Violation => {
                        acc.viol(
                            format!("{} parsed once and evaluated on one document after another: {}", q, tmp.first_violation().unwrap_or_default()),
                            json!({"kind": "kept-query", "class": "prepared query over the panel", "query": q, "docs": [prev.cloned().unwrap_or(Value::Null), d.clone()]}),
                        );
                        return acc;
                    }
                    Outcome::Agree(n) => {
                        acc.evals += 1;
                        if n > 0 {
                            acc.nontrivial += 1;
                        }
                    }
                    _ => acc = acc.merge(tmp),
                }
                prev = Some(d);
            }
            acc
        })
        .reduce(Acc::new, Acc::merge)
}
