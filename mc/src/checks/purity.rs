//! C12: entry points agree; evaluation is a pure function of (query, document): identical on repetition,
//! after any history, and under every interleaving of concurrent evaluations that share one parsed query
//! and one document.

use crate::acc::{Acc, Run};
use crate::explore::sched::{self, ExploreStats, Execution};
use crate::gen::sentences;
use crate::imp::{self, AddrMap, ImplOut};
use crate::model::render;
use jsonpath_rust::parser::model::JpQuery;
use rayon::prelude::*;
use serde_json::{json, Value};
use std::process::Command;
use std::sync::Arc;

/// wrapper that lets the harness share values between threads even if a change to jsonpath-rust makes them
/// !Send / !Sync (that property is checked separately by the `static_assert` package)
pub struct Shared<T>(pub T);
unsafe impl<T> Sync for Shared<T> {}
unsafe impl<T> Send for Shared<T> {}

fn ser(v: &Value) -> String {
    serde_json::to_string(v).unwrap()
}

// ---------------------------------------------------------------------------------------------
// part 1: entry points agree

pub fn entry_points_pub(acc: &mut Acc, q: &str, doc: &Value, am: &AddrMap) {
    entry_points(acc, q, doc, am)
}

fn entry_points(acc: &mut Acc, q: &str, doc: &Value, am: &AddrMap) {
    acc.evals += 1;
    let before = ser(doc);
    let a = imp::run_with_path(q, doc, am);
    let b = imp::run_query(q, doc, am);
    let c = imp::run_only_path(q, doc);
    let parsed = imp::parse(q);
    let case = || json!({"kind": "entry-points", "class": "entry points", "query": q, "doc": doc});
    match (&a, &parsed) {
        (ImplOut::Ok(av), Ok(Ok(jq))) => {
            if !av.is_empty() {
                acc.nontrivial += 1;
            }
            let d = imp::run_parsed(jq, doc, am);
            let e = imp::run_parsed(jq, doc, am);
            let jq2 = jq.clone();
            let f = imp::run_parsed(&jq2, doc, am);
            let ids: Vec<u32> = av.iter().map(|x| x.0).collect();
            let paths: Vec<String> = av.iter().map(|x| x.1.clone()).collect();
            let mut bad = vec![];
            if b != Ok(Ok(ids.clone())) {
                bad.push(format!("query returns {:?}, query_with_path returns nodes {:?}", b, ids));
            }
            if c != Ok(Ok(paths.clone())) {
                bad.push(format!("query_only_path returns {:?}, query_with_path returns paths {:?}", c, paths));
            }
            if d != a {
                bad.push(format!("evaluating the query parsed once returns {:?}, query_with_path returns {:?}", d, a));
            }
            if e != d {
                bad.push(format!("evaluating the same parsed query twice returns {:?} then {:?}", d, e));
            }
            if f != d {
                bad.push(format!("a clone of the parsed query returns {:?}, the original {:?}", f, d));
            }
            if imp::run_with_path(q, doc, am) != a {
                bad.push("query_with_path returns a different result on repetition".to_string());
            }
            for b in bad {
                acc.viol(format!("{} on {}: {}", q, doc, b), case());
            }
            acc.sample(|| json!({"query": q, "doc": doc, "nodes": ids.len()}));
        }
        (ImplOut::Err(_), Ok(Err(_))) => {
            // invalid for the parser: all string entry points must fail alike
            if !matches!(b, Ok(Err(_))) || !matches!(c, Ok(Err(_))) {
                acc.viol(format!("{} is rejected by query_with_path but query / query_only_path give {:?} / {:?}", q, b, c), case());
            }
        }
        other => {
            acc.viol(format!("{} on {}: query_with_path and parse_json_path disagree: {:?}", q, doc, (other.0.short(), other.1.as_ref().map(|r| r.is_ok()))), case());
        }
    }
    if ser(doc) != before {
        acc.viol(format!("{} changed the document from {} to {}", q, before, doc), case());
    }
}

fn docs_extra_queries(qs: &mut Vec<String>) {
    for q in ["$['a b']", "$['a  b']", "$[\"a b\"]", "$[' ']", "$['  ']", "$[?@=='a b']", "$[?@=='a  b']", "$..[?@.k=='x y']", "$..[?@.k=='x  y']", "$['a\tb']", "$[?@.a,?@.b,?@.a]", "$[?@.a,?@.b,?@.a,?@.b]", "$..[?@.a,?@==1,?@.a]"] {
        qs.push(q.to_string());
    }
}

fn part_entry_points(thorough: bool) -> Acc {
    let mut docs = crate::checks::lang::eval_panel();
    docs.extend(crate::gen::docs::panel());
    docs.push(json!({"a b": 1, "a  b": 2, " ": 4, "  ": 5, "s": "a  b", "t": "a b", "arr": [{"k": "x y"}, {"k": "x  y"}]}));
    docs.extend(crate::gen::docs::deep_docs(false).into_iter().skip(9).step_by(5).take(4));
    for n in [64usize, 65, 257] {
        docs.push(Value::Array((0..n).map(|i| if i % 4 == 0 { json!({"a": i, "b": [i]}) } else { json!(i % 3) }).collect()));
    }
    let docs: Vec<(Value, AddrMap)> = docs
        .into_iter()
        .map(|d| {
            let am = AddrMap::new(&d);
            (d, am)
        })
        .collect();
    let depths: Vec<usize> = docs.iter().map(|(d, _)| crate::gen::docs::depth(d)).collect();
    let mut qs: Vec<String> = sentences::sentences(thorough).iter().map(render::query).collect();
    // queries that differ only in a blank run inside a string (anything keyed on normalised query text collides)
    docs_extra_queries(&mut qs);
    // some invalid strings too
    qs.extend(["$[", "$.", "$[?@.a==]", "$[?length(@.*)>1]", "", "$$", "@", "$[01]"].iter().map(|s| s.to_string()));
    qs.extend(crate::checks::lifted::PREPARED.iter().map(|s| s.to_string()));
    qs.par_iter()
        .map(|q| {
            let mut acc = Acc::new();
            for ((d, am), depth) in docs.iter().zip(depths.iter()) {
                if crate::gen::docs::too_big(q, *depth) {
                    acc.bump("skipped_multi_descendant_on_deep_document", 1);
                    continue;
                }
                entry_points(&mut acc, q, d, am);
            }
            kept_query_over_documents(&mut acc, q, docs.iter().zip(depths.iter()).filter(|(_, depth)| !crate::gen::docs::too_big(q, **depth)).map(|(x, _)| &x.0));
            acc
        })
        .reduce(Acc::new, Acc::merge)
}

fn pv_parsed(jq: &JpQuery, d: &Value) -> String {
    match std::panic::catch_unwind(std::panic::AssertUnwindSafe(|| jsonpath_rust::query::js_path_process(jq, d).map(|v| v.into_iter().map(|r| (r.clone().path(), r.val().to_string())).collect::<Vec<_>>()))) {
        Ok(Ok(v)) => format!("{:?}", v),
        Ok(Err(e)) => format!("Err({})", e),
        Err(p) => format!("PANIC({})", imp::panic_text(p)),
    }
}

/// One parsed query is kept while the documents come and go in one variable (its root keeps its address, its
/// content changes): each evaluation must give what the query string gives on that content.
fn kept_query_over_documents<'a>(acc: &mut Acc, q: &str, docs: impl Iterator<Item = &'a Value>) {
    let kept = match imp::parse(q) {
        Ok(Ok(jq)) => jq,
        _ => return,
    };
    let docs: Vec<&Value> = docs.collect();
    // first all evaluations of the kept query, one after another with nothing in between (a call through a string
    // entry point in between could reset what the kept query left behind), then the per-call baseline
    let mut slot = Value::Null;
    let mut kept_results = vec![];
    for d in &docs {
        slot.clone_from(d);
        acc.evals += 1;
        acc.transitions += 1;
        kept_results.push(pv_parsed(&kept, &slot));
    }
    for (i, d) in docs.iter().enumerate() {
        let b = pv(q, d);
        if kept_results[i] != b {
            let prev = if i > 0 { docs[i - 1].clone() } else { Value::Null };
            acc.viol(
                format!("{}: parsed once and evaluated on a variable that held {} before and holds {} now, it returns {} ; the query string on that document returns {}", q, prev, d, kept_results[i], b),
                json!({"kind": "kept-query", "class": "kept parsed query over successive documents in one variable", "query": q, "docs": [prev, d]}),
            );
            return;
        }
    }
    acc.bump("kept_query_document_sequences", 1);
}

pub fn replay_kept_query(case: &Value, _run: &Run) -> Acc {
    let mut acc = Acc::new();
    let q = case["query"].as_str().unwrap_or("$");
    let docs: Vec<Value> = case["docs"].as_array().cloned().unwrap_or_default();
    kept_query_over_documents(&mut acc, q, docs.iter());
    for d in &docs {
        println!("query {} on {} -> {}", q, d, pv(q, d));
    }
    acc
}

/// part 1b: the string entry points on every edge of the nodelist transition system (the explorations of C01-C03
/// drive the evaluator through queries assembled from parsed segments; here the rendered query string of the same
/// edge goes through `query_with_path`, `query` and `query_only_path` and must give what the assembled query gives)
fn part_entry_points_bfs(thorough: bool) -> Acc {
    use crate::explore::bfs::{bfs, BfsParams};
    use crate::gen::alpha::{alphabet, AlphaSize};
    let mut docs = crate::gen::docs::universe(if thorough { 2 } else { 1 }, 2, &[json!(1), json!("a")], &["b", "a"]);
    docs.extend(crate::gen::docs::names_universe(false));
    docs.extend(crate::gen::docs::panel());
    let params = BfsParams { lmax: 8, max_depth: 2, max_states: 400 };
    docs.par_iter()
        .map(|d| {
            let mut acc = Acc::new();
            let alpha = alphabet(d, AlphaSize::Singles, 3, true);
            bfs(d, &alpha, &params, &mut acc, |e, acc| {
                let q = e.query_string();
                let a = imp::run_with_path(&q, e.doc, e.am);
                if &a != e.out {
                    acc.viol(
                        format!("{} on {}: query_with_path returns {:?} but the same query assembled from its parsed segments returns {:?}", q, e.doc, a, e.out),
                        json!({"kind": "entry-points", "class": "string entry vs assembled query", "query": q, "doc": e.doc}),
                    );
                    return;
                }
                if let ImplOut::Ok(v) = &a {
                    if !v.is_empty() {
                        acc.nontrivial += 1;
                    }
                    let ids: Vec<u32> = v.iter().map(|x| x.0).collect();
                    let paths: Vec<String> = v.iter().map(|x| x.1.clone()).collect();
                    if imp::run_query(&q, e.doc, e.am) != Ok(Ok(ids)) || imp::run_only_path(&q, e.doc) != Ok(Ok(paths)) {
                        acc.viol(format!("{} on {}: query / query_only_path disagree with query_with_path", q, e.doc), json!({"kind": "entry-points", "class": "entry points", "query": q, "doc": e.doc}));
                    }
                }
            });
            // the BFS bookkeeping counts its own edges; keep only this part's view
            acc
        })
        .reduce(Acc::new, Acc::merge)
}

// ---------------------------------------------------------------------------------------------
// part 2: histories

pub const QUERIES: [&str; 8] = [
    "$[?match(@.s,'a')]",
    "$[?search(@.s,'a')]",
    "$[?match(@.s,$.p)]",
    "$..a",
    "$[*].s",
    "$[?@.n>1]",
    "$[0,0]",
    "$[?count(@.*)>1||@.s=='ab']",
];

/// name selectors with an escape, pairwise different texts of the same length (anything keyed on the identity of a
/// selector's text instead of its content, e.g. its address, confuses them once one parse has been dropped)
pub const ESCAPED: [&str; 3] = ["$['a\\\\b']", "$['c\\\\d']", "$..['e\\\\f']"];

/// long queries next to the short ones of the alphabet (anything sized, budgeted or evicted by the length of an earlier
/// query shows only when short and long queries meet): a long query without a filter and a long filter
pub fn long_queries() -> Vec<String> {
    vec![format!("$.x{}", "['n']".repeat(90)), format!("$[?{}@.s=='ab']", "@.n==1||".repeat(60)), format!("$..[{}0]", "0,".repeat(150))]
}

/// queries the parser must reject after the grammar accepted them (model-building errors inside a filter) and
/// plain syntax errors: string entry points only; their baseline is an Err
pub const REJECTED: [&str; 5] = ["$[?length(@.a,@.b)==1]", "$[?count(1)>0]", "$[?match(@.s,'a')==true]", "$[?@.n==9007199254740993]", "$[?@.n==]"];

pub fn hist_docs() -> Vec<Value> {
    vec![
        json!([{"s": "a", "n": 1, "a": [1]}, {"s": "ab", "n": 2}, {"s": "ba", "n": 3, "a": {"a": 2}}, "a"]),
        json!({"p": "a.*", "x": {"s": "ab", "n": 5}, "y": {"s": "b", "a": 1}, "z": [{"s": "a"}], "a\\b": 1, "c\\d": 2, "e\\f": 3}),
    ]
}

#[derive(Clone, Copy, Debug, PartialEq, Eq)]
pub struct Op {
    pub entry: u8,
    pub query: u8,
    pub doc: u8,
}

pub fn ops() -> Vec<Op> {
    let mut v = vec![];
    for q in 0..QUERIES.len() as u8 {
        for d in 0..2u8 {
            // spread the four entry points over the (query, document) pairs and add the prepared form for all
            v.push(Op { entry: (q + d) % 3, query: q, doc: d });
            v.push(Op { entry: 3, query: q, doc: d });
        }
    }
    for (i, _) in REJECTED.iter().enumerate() {
        v.push(Op { entry: (i % 3) as u8, query: (QUERIES.len() + i) as u8, doc: (i % 2) as u8 });
    }
    for (i, _) in ESCAPED.iter().enumerate() {
        for entry in 0..4u8 {
            v.push(Op { entry, query: (QUERIES.len() + REJECTED.len() + i) as u8, doc: 1 });
        }
    }
    for i in 0..long_queries().len() {
        for entry in [0u8, 2, 3] {
            v.push(Op { entry, query: (QUERIES.len() + REJECTED.len() + ESCAPED.len() + i) as u8, doc: 1 });
        }
    }
    v
}

pub struct HistCtx {
    pub docs: Vec<Value>,
    pub ams: Vec<AddrMap>,
    pub queries: Vec<String>,
    pub prepared: Vec<Shared<JpQuery>>,
}

/// small documents for the schedule harnesses (every evaluation crosses 10 - 40 scheduling points)
pub fn sched_docs() -> Vec<Value> {
    vec![json!([{"s": "a", "n": 2, "a": 1}, {"s": "ba"}]), json!({"p": "a.*", "x": {"s": "ab", "a": [1]}})]
}

impl HistCtx {
    pub fn new() -> HistCtx {
        HistCtx::with_docs(hist_docs())
    }
    pub fn with_docs(docs: Vec<Value>) -> HistCtx {
        HistCtx::with(docs, QUERIES.iter().chain(REJECTED.iter()).chain(ESCAPED.iter()).map(|q| q.to_string()).chain(long_queries()).collect())
    }
    pub fn with(docs: Vec<Value>, queries: Vec<String>) -> HistCtx {
        let ams = docs.iter().map(AddrMap::new).collect();
        // a query the parser rejects has no prepared form; it is only used through the string entry points
        let prepared = queries.iter().map(|q| Shared(imp::parse(q).expect("no panic").unwrap_or_else(|_| JpQuery::new(vec![])))).collect();
        HistCtx { docs, ams, queries, prepared }
    }
    /// the operation evaluated with a caller-supplied parsed query (shared by the threads of one execution)
    pub fn exec_with(&self, op: Op, jq: &JpQuery) -> String {
        let d = &self.docs[op.doc as usize];
        let am = &self.ams[op.doc as usize];
        let before = ser(d);
        let r = format!("{:?}", imp::run_parsed(jq, d, am));
        if ser(d) != before {
            return format!("DOCUMENT CHANGED; {}", r);
        }
        r
    }

    /// canonical text of the result of one operation
    pub fn exec(&self, op: Op) -> String {
        let d = &self.docs[op.doc as usize];
        let am = &self.ams[op.doc as usize];
        let q = self.queries[op.query as usize].as_str();
        let before = ser(d);
        let r = match op.entry {
            0 => format!("{:?}", imp::run_with_path(q, d, am)),
            1 => format!("{:?}", imp::run_query(q, d, am).map(|r| r.map(|ids| ids.iter().map(|i| crate::model::normpath::normpath(am.loc(*i))).collect::<Vec<_>>()))),
            2 => format!("{:?}", imp::run_only_path(q, d)),
            _ => format!("{:?}", imp::run_parsed(&self.prepared[op.query as usize].0, d, am)),
        };
        if ser(d) != before {
            return format!("DOCUMENT CHANGED; {}", r);
        }
        r
    }
}

/// child process: execute the given operations in order, print the result of the last one
pub fn history_child(idx: &[usize]) -> i32 {
    let ctx = HistCtx::new();
    let ops = ops();
    let mut last = String::new();
    for i in idx {
        last = ctx.exec(ops[*i]);
    }
    println!("{}", last);
    0
}

/// child process: every window of `w` operations that starts with operation `first`, in lexicographic order, in
/// this one process; the baseline (each operation as the first one of a fresh process) is read from stdin.
/// Prints one JSON line: {"windows": n, "evals": n, "violation": null | {...}}. `stop_after`: windows to run.
pub fn windows_child(first: usize, w: usize) -> i32 {
    let mut text = String::new();
    if std::io::Read::read_to_string(&mut std::io::stdin(), &mut text).is_err() {
        return 2;
    }
    let baseline: Vec<String> = match serde_json::from_str(&text) {
        Ok(b) => b,
        Err(_) => return 2,
    };
    let ctx = HistCtx::new();
    let ops = ops();
    let n = ops.len();
    if baseline.len() != n || first >= n || w < 1 {
        return 2;
    }
    let mut idx = vec![0usize; w];
    idx[0] = first;
    let mut windows = 0u64;
    let mut evals = 0u64;
    let mut violation = Value::Null;
    'outer: loop {
        for (k, i) in idx.iter().enumerate() {
            let r = ctx.exec(ops[*i]);
            evals += 1;
            if r != baseline[*i] {
                violation = json!({"window": idx, "position": k, "window_number": windows, "observed": r, "alone": baseline[*i]});
                break 'outer;
            }
        }
        windows += 1;
        let mut k = w;
        loop {
            if k == 1 {
                break 'outer;
            }
            k -= 1;
            idx[k] += 1;
            if idx[k] < n {
                break;
            }
            idx[k] = 0;
        }
    }
    println!("{}", json!({"windows": windows, "evals": evals, "violation": violation}));
    0
}

fn run_windows_child(first: usize, w: usize, baseline: &[String]) -> Result<Value, String> {
    use std::io::Write;
    let exe = std::env::current_exe().map_err(|e| e.to_string())?;
    let mut child = Command::new(exe)
        .args(["history-windows", &first.to_string(), &w.to_string()])
        .stdin(std::process::Stdio::piped())
        .stdout(std::process::Stdio::piped())
        .spawn()
        .map_err(|e| e.to_string())?;
    child.stdin.take().unwrap().write_all(serde_json::to_string(baseline).unwrap().as_bytes()).map_err(|e| e.to_string())?;
    let out = child.wait_with_output().map_err(|e| e.to_string())?;
    if !out.status.success() {
        return Err(format!("windows child failed: {:?}", out.status));
    }
    serde_json::from_str(String::from_utf8_lossy(&out.stdout).trim()).map_err(|e| e.to_string())
}

fn run_child(idx: &[usize]) -> Result<String, String> {
    let exe = std::env::current_exe().map_err(|e| e.to_string())?;
    let mut cmd = Command::new(exe);
    cmd.arg("history");
    for i in idx {
        cmd.arg(i.to_string());
    }
    let out = cmd.output().map_err(|e| e.to_string())?;
    if !out.status.success() {
        return Err(format!("child failed: {:?}", out.status));
    }
    Ok(String::from_utf8_lossy(&out.stdout).trim().to_string())
}

fn part_histories(thorough: bool) -> Result<Acc, String> {
    let ops = ops();
    let n = ops.len();
    // baseline: each operation as the first operation of a fresh process
    let baseline: Vec<String> = (0..n).into_par_iter().map(|i| run_child(&[i])).collect::<Result<Vec<_>, _>>()?;
    let mut acc = Acc::new();
    acc.bump("operation_alphabet", n as u64);
    // (a) every history of length 2 in its own fresh process
    let pairs: Vec<(usize, usize)> = (0..n).flat_map(|a| (0..n).map(move |b| (a, b))).collect();
    let res: Vec<((usize, usize), Result<String, String>)> = pairs.par_iter().map(|(a, b)| ((*a, *b), run_child(&[*a, *b]))).collect();
    for ((a, b), r) in res {
        acc.evals += 1;
        acc.transitions += 1;
        let r = r?;
        if r != baseline[b] {
            acc.viol(
                format!("in a fresh process, {:?} after {:?} returns {} but as the first operation it returns {}", ops[b], ops[a], r, baseline[b]),
                json!({"kind": "history", "class": "fresh-process pair", "ops": [a, b]}),
            );
        } else {
            acc.nontrivial += 1;
        }
    }
    acc.bump("fresh_process_histories", (n * n + n) as u64);
    // (b) every window of length w over the alphabet; the windows that start with the same operation run in
    // lexicographic order in one fresh process, so that state carried over from earlier windows (allocator state
    // included) is part of a reproducible artefact: (first operation, window number)
    let w = if thorough { 4 } else { 3 };
    let res: Vec<(usize, Result<Value, String>)> = (0..n).into_par_iter().map(|a| (a, run_windows_child(a, w, &baseline))).collect();
    let mut windows = 0u64;
    for (a, r) in res {
        let r = r?;
        windows += r["windows"].as_u64().unwrap_or(0);
        acc.evals += r["evals"].as_u64().unwrap_or(0);
        acc.transitions += r["evals"].as_u64().unwrap_or(0);
        let v = &r["violation"];
        if !v.is_null() {
            let win: Vec<usize> = v["window"].as_array().map(|x| x.iter().map(|y| y.as_u64().unwrap_or(0) as usize).collect()).unwrap_or_default();
            let k = v["position"].as_u64().unwrap_or(0) as usize;
            acc.viol(
                format!(
                    "in the process that runs all windows starting with {:?}: in window number {} = {:?}, operation {:?} returns {} but as the first operation of a fresh process it returns {}",
                    ops[a],
                    v["window_number"],
                    win.iter().map(|i| format!("{:?}", ops[*i])).collect::<Vec<_>>(),
                    win.get(k).map(|i| ops[*i]),
                    v["observed"],
                    v["alone"]
                ),
                json!({"kind": "history", "class": "in-process window", "first": a, "w": w, "ops": win[..=k.min(win.len().saturating_sub(1))].to_vec()}),
            );
        }
    }
    acc.states += n as u64;
    acc.bump("in_process_windows", windows);
    acc.bump("window_length", w as u64);
    acc.sample(|| json!({"history": [format!("{:?}", ops[0]), format!("{:?}", ops[5])], "last_result": baseline[5]}));
    Ok(acc)
}

// ---------------------------------------------------------------------------------------------
// part 2c: queries interleaved with in-place updates of a live document

fn pv(q: &str, d: &Value) -> String {
    use jsonpath_rust::JsonPath;
    match std::panic::catch_unwind(std::panic::AssertUnwindSafe(|| d.query_with_path(q).map(|v| v.into_iter().map(|r| (r.clone().path(), r.val().to_string())).collect::<Vec<_>>()))) {
        Ok(Ok(v)) => format!("{:?}", v),
        Ok(Err(e)) => format!("Err({})", e),
        Err(p) => format!("PANIC({})", imp::panic_text(p)),
    }
}

/// A result depends only on the query and the document *content*: after any sequence of in-place updates of a
/// live document (through `reference_mut`), with queries before and in between, every query on the live document
/// must give what it gives on a freshly built, equal document.
fn part_update_histories(thorough: bool) -> Acc {
    use jsonpath_rust::query::queryable::Queryable;
    let docs = vec![
        json!({"elems": ["a", "b", 1], "list": ["a", 1], "p": "a"}),
        json!([{"s": "a", "n": 1}, {"s": "ab", "n": 2}]),
        json!({"k": {"s": "b"}, "list": [[1], [2]], "elems": [[1], [3]]}),
    ];
    let queries = [
        // tests rooted at `$`: their outcome changes with the document, not with the node under test
        "$.elems[?$.list[1]]",
        "$.elems[?!$.p||@=='a']",
        "$[?$[0].s]",
        "$[?$[1].n&&@.s]",
        "$.elems[?$.k.s]",
        "$.list[?@[?!$.k.s&&@>0]]",
        "$.elems[?in(@,$.list)]",
        "$.elems[?nin(@,$.list)]",
        "$.elems[?any_of(@,$.list[0])]",
        "$[?match(@.s,'a')]",
        "$[?search(@.s,$.p)]",
        "$..[?@==1]",
        "$.list[?@==$.elems[0]]",
        "$[?length(@.s)==1]",
        "$[?count(@.*)==2]",
        "$..*",
        "$.elems[0,0]",
        "$..s",
    ];
    let values = [json!(7), json!("a"), json!([1]), json!({"s": "a"})];
    let depth = if thorough { 3 } else { 2 };
    docs.par_iter()
        .map(|d0| {
            let mut acc = Acc::new();
            // write alphabet: normalized paths of the initial document's nodes (below the root) x values
            let mut locs = vec![];
            fn walk(v: &Value, cur: &mut crate::model::eval::Loc, out: &mut Vec<crate::model::eval::Loc>) {
                out.push(cur.clone());
                match v {
                    Value::Array(a) => {
                        for (i, x) in a.iter().enumerate() {
                            cur.push(crate::model::eval::Step::Index(i));
                            walk(x, cur, out);
                            cur.pop();
                        }
                    }
                    Value::Object(m) => {
                        for (k, x) in m {
                            cur.push(crate::model::eval::Step::Name(k.clone()));
                            walk(x, cur, out);
                            cur.pop();
                        }
                    }
                    _ => {}
                }
            }
            walk(d0, &mut vec![], &mut locs);
            let paths: Vec<String> = locs.iter().skip(1).take(8).map(crate::model::normpath::normpath).collect();
            let writes: Vec<(usize, usize)> = (0..paths.len()).flat_map(|p| (0..values.len()).map(move |v| (p, v))).collect();
            let mut seqs: Vec<Vec<(usize, usize)>> = vec![vec![]];
            let mut level: Vec<Vec<(usize, usize)>> = vec![vec![]];
            for _ in 0..depth {
                let mut next = vec![];
                for sq in &level {
                    for w in &writes {
                        let mut s2 = sq.clone();
                        s2.push(*w);
                        next.push(s2);
                    }
                }
                // keep the frontier bounded: all sequences of length 1 and 2, a stride of the longer ones
                let keep: Vec<Vec<(usize, usize)>> = if next.len() > 2000 { next.iter().step_by(next.len() / 2000 + 1).cloned().collect() } else { next.clone() };
                seqs.extend(keep.iter().cloned());
                level = keep;
            }
            acc.states += seqs.len() as u64;
            // parsed once per initial document and kept over every update sequence (the live document is one variable:
            // its root has one address throughout)
            let kept: Vec<JpQuery> = queries.iter().map(|q| imp::parse(q).expect("no panic").expect("valid query")).collect();
            let mut live = Value::Null;
            let mut prev_sq: Vec<(usize, usize)> = vec![];
            for sq in &seqs {
                live.clone_from(d0);
                for (q, jq) in queries.iter().zip(kept.iter()) {
                    let a = pv(q, &live);
                    let k = pv_parsed(jq, &live);
                    if a != k {
                        acc.viol(
                            format!("{} parsed once and kept returns {} on the restored document {} but the query string returns {}", q, k, live, a),
                            json!({"kind": "update-history", "class": "update history (kept parsed query)", "doc": d0, "query": q,
                                   "writes": prev_sq.iter().map(|(p, v)| json!([paths[*p], values[*v]])).chain(std::iter::once(json!(["<restore>", null]))).collect::<Vec<_>>()}),
                        );
                    }
                }
                prev_sq = sq.clone();
                for (pi, vi) in sq {
                    let applied = std::panic::catch_unwind(std::panic::AssertUnwindSafe(|| match live.reference_mut(paths[*pi].clone()) {
                        Some(h) => {
                            *h = values[*vi].clone();
                            true
                        }
                        None => false,
                    }));
                    acc.transitions += 1;
                    if applied.is_err() {
                        acc.viol(format!("reference_mut({}) panicked on {}", paths[*pi], live), json!({"kind": "update-history", "class": "update history", "doc": d0, "writes": sq.iter().map(|(p, v)| json!([paths[*p], values[*v]])).collect::<Vec<_>>()}));
                        break;
                    }
                    let fresh: Value = serde_json::from_str(&serde_json::to_string(&live).unwrap()).unwrap();
                    for (q, jq) in queries.iter().zip(kept.iter()) {
                        acc.evals += 1;
                        let a = pv(q, &live);
                        let b = pv(q, &fresh);
                        let k = pv_parsed(jq, &live);
                        if k != b {
                            acc.viol(
                                format!("after the in-place updates {:?} the live document is {}; {} parsed once before the updates returns {} on it but the query string returns {} on an equal, freshly built document", sq.iter().map(|(p, v)| format!("{} := {}", paths[*p], values[*v])).collect::<Vec<_>>(), live, q, k, b),
                                json!({"kind": "update-history", "class": "update history (kept parsed query)", "doc": d0, "writes": sq.iter().map(|(p, v)| json!([paths[*p], values[*v]])).collect::<Vec<_>>(), "query": q}),
                            );
                        }
                        if a != b {
                            acc.viol(
                                format!("after the in-place updates {:?} the live document is {}; {} returns {} on it but {} on an equal, freshly built document", sq.iter().map(|(p, v)| format!("{} := {}", paths[*p], values[*v])).collect::<Vec<_>>(), live, q, a, b),
                                json!({"kind": "update-history", "class": "update history", "doc": d0, "writes": sq.iter().map(|(p, v)| json!([paths[*p], values[*v]])).collect::<Vec<_>>(), "query": q}),
                            );
                        } else if a.len() > 2 {
                            acc.nontrivial += 1;
                        }
                    }
                }
            }
            acc
        })
        .reduce(Acc::new, Acc::merge)
}

pub fn replay_update_history(case: &Value, _run: &Run) -> Acc {
    use jsonpath_rust::query::queryable::Queryable;
    let mut acc = Acc::new();
    let mut live = case["doc"].clone();
    let q = case["query"].as_str().unwrap_or("$");
    let kept = imp::parse(q).ok().and_then(|r| r.ok());
    let _ = pv(q, &live);
    if let Some(jq) = &kept {
        let _ = pv_parsed(jq, &live);
    }
    for w in case["writes"].as_array().cloned().unwrap_or_default() {
        if w[0] == "<restore>" {
            live.clone_from(&case["doc"]);
        } else if let Some(h) = live.reference_mut(w[0].as_str().unwrap_or("$").to_string()) {
            *h = w[1].clone();
        }
        let _ = pv(q, &live);
        if let Some(jq) = &kept {
            let _ = pv_parsed(jq, &live);
        }
    }
    let fresh: Value = serde_json::from_str(&serde_json::to_string(&live).unwrap()).unwrap();
    let (a, b) = (pv(q, &live), pv(q, &fresh));
    println!("live document  : {}", live);
    println!("query          : {}", q);
    println!("on live        : {}", a);
    println!("on fresh equal : {}", b);
    if a != b {
        acc.viol(format!("{} differs between the live document and an equal fresh one: {} vs {}", q, a, b), case.clone());
    }
    if let Some(jq) = &kept {
        let k = pv_parsed(jq, &live);
        println!("kept parsed    : {}", k);
        if k != b {
            acc.viol(format!("{} parsed once before the updates returns {} on the live document, {} on an equal fresh one", q, k, b), case.clone());
        }
    }
    acc
}

// ---------------------------------------------------------------------------------------------
// part 3: schedules

struct Harness {
    name: String,
    /// None: the history alphabet QUERIES; Some: the harness' own query list
    queries: Option<Vec<String>>,
    /// per thread: operations (entry, query index, doc index)
    threads: Vec<Vec<Op>>,
    /// the shared query is parsed afresh for every execution (its first use is then the concurrent one) instead of
    /// being the long-lived prepared query of the context
    fresh_parse: bool,
}

/// one query per evaluation construct, each used from two threads through ONE parsed query on ONE document
/// (document index into `sched_docs`)
pub const FEATURES: [(&str, u8); 24] = [
    ("$.x[?$.p]", 1),
    ("$.x[?!$.zz]", 1),
    ("$.x[?$..a]", 1),
    ("$.x[?@==$.x.s]", 1),
    ("$.x[?search(@,$.p)]", 1),
    ("$[?@.a]", 0),
    ("$[?!@.a]", 0),
    ("$[?@.n==2]", 0),
    ("$[?@.n<3||@.s=='ba']", 0),
    ("$[?!(@.a)&&@.s]", 0),
    ("$[?length(@.s)==2]", 0),
    ("$[?count(@.*)==1]", 0),
    ("$[?value(@.n)==2]", 0),
    ("$[?match(@.s,'.a')]", 0),
    ("$[?@.*]", 0),
    ("$[?@[?@==1]]", 0),
    ("$[?in(@.n,$[0])]", 0),
    ("$[*]['s','n']", 0),
    ("$[1:0:-1]", 0),
    ("$[-1,0]", 0),
    ("$..s", 0),
    ("$..[?@==1]", 1),
    ("$.x.a[0]", 1),
    ("$.*.*", 1),
];

fn harnesses(thorough: bool) -> Vec<Harness> {
    let o = |entry: u8, query: u8, doc: u8| Op { entry, query, doc };
    let h = |name: &str, threads: Vec<Vec<Op>>| Harness { name: name.to_string(), queries: None, threads, fresh_parse: false };
    let mut v = vec![
        h("2 threads x 2 ops: one prepared match query on both documents, against search and a string entry point", vec![vec![o(3, 0, 0), o(3, 2, 1)], vec![o(3, 1, 0), o(0, 0, 0)]]),
        h("2 threads x 2 ops: the same prepared query on the same document from both threads", vec![vec![o(3, 7, 0), o(3, 7, 1)], vec![o(3, 7, 0), o(3, 7, 1)]]),
        h("3 threads x 1 op: match / search / count on one document", vec![vec![o(3, 0, 0)], vec![o(3, 1, 0)], vec![o(3, 5, 0)]]),
        h("2 threads x 1 op: descendant and union on one document", vec![vec![o(3, 3, 0)], vec![o(3, 6, 0)]]),
    ];
    // the indices of the harnesses above and of the feature harnesses are the same in both tiers (subprocess jobs
    // address a harness by index); thorough-only harnesses come last
    for (q, d) in FEATURES {
        v.push(Harness {
            name: format!("2 threads x 1 op: one freshly parsed `{}` on one document from both threads", q),
            queries: Some(vec![q.to_string()]),
            threads: vec![vec![o(3, 0, d)], vec![o(3, 0, d)]],
            fresh_parse: true,
        });
    }
    if thorough {
        v.push(h("3 threads x 2 ops: the same prepared regex query everywhere", vec![vec![o(3, 2, 1), o(3, 0, 0)], vec![o(3, 2, 1), o(3, 1, 0)], vec![o(3, 0, 0), o(3, 2, 1)]]));
        v.push(h("2 threads x 3 ops: string entry points that re-parse at every call", vec![vec![o(0, 0, 0), o(1, 1, 0), o(2, 2, 1)], vec![o(2, 0, 0), o(0, 1, 0), o(1, 2, 1)]]));
        for (q, d) in FEATURES {
            v.push(Harness {
                name: format!("3 threads x 1 op: one long-lived parsed `{}` on one document from three threads", q),
                queries: Some(vec![q.to_string()]),
                threads: vec![vec![o(3, 0, d)], vec![o(3, 0, d)], vec![o(3, 0, d)]],
                fresh_parse: false,
            });
        }
    }
    v
}

fn harness_ctx(h: &Harness) -> HistCtx {
    match &h.queries {
        None => HistCtx::with_docs(sched_docs()),
        Some(q) => HistCtx::with(sched_docs(), q.clone()),
    }
}

/// One exploration job, executed in a fresh subprocess so that it starts from a clean process state and visits its
/// schedules in a deterministic order (a stateful defect makes later executions depend on earlier ones; the
/// (job, execution number) pair is then the reproducible artefact).
///   child = None      : only the root execution (all default choices); reports the number of first-level subtrees
///   child = Some(i)   : sequential depth-first exploration of the i-th first-level subtree
/// prints one JSON line
pub fn sched_child(h_idx: usize, bound: usize, child: Option<usize>, stop_at: Option<u64>, cap: u64) -> i32 {
    jsonpath_rust::verif::set_hook(Some(sched::hook));
    let hs = harnesses(true);
    let h = &hs[h_idx];
    let ctx = Arc::new(Shared(harness_ctx(h)));
    // baseline: every operation alone, outside the scheduler, before anything else happens in this process
    let baseline: Vec<Vec<String>> = h
        .threads
        .iter()
        .map(|t| {
            t.iter()
                .map(|op| {
                    if h.fresh_parse {
                        let j = imp::parse(&ctx.0.queries[0]).expect("no panic").expect("parses");
                        ctx.0.exec_with(*op, &j)
                    } else {
                        ctx.0.exec(*op)
                    }
                })
                .collect()
        })
        .collect();
    let fresh = h.fresh_parse;
    let make = || -> Vec<Box<dyn FnOnce() -> Vec<String> + Send>> {
        let jq: Option<Arc<Shared<JpQuery>>> = if fresh { Some(Arc::new(Shared(imp::parse(&ctx.0.queries[0]).expect("no panic").expect("parses")))) } else { None };
        h.threads
            .iter()
            .map(|t| {
                let t = t.clone();
                let ctx = ctx.clone();
                let jq = jq.clone();
                Box::new(move || {
                    t.iter()
                        .map(|op| match &jq {
                            Some(j) => ctx.0.exec_with(*op, &j.0),
                            None => ctx.0.exec(*op),
                        })
                        .collect::<Vec<String>>()
                }) as Box<dyn FnOnce() -> Vec<String> + Send>
            })
            .collect()
    };
    let root = sched::run_once(make(), &[]);
    let root_full: Vec<(usize, u32, Option<usize>)> = root.trace.iter().map(|p| (p.chosen, p.point_id, p.by)).collect();
    let mut children: Vec<Vec<(usize, u32, Option<usize>)>> = vec![];
    if root.error.is_none() {
        for i in 0..root.trace.len() {
            let p = &root.trace[i];
            let cost = root.preemptions_before(i) + if p.running_enabled { 1 } else { 0 };
            if cost > bound {
                continue;
            }
            for alt in 1..p.enabled.len() {
                let mut pre = root_full[..i].to_vec();
                pre.push((alt, p.point_id, p.by));
                children.push(pre);
            }
        }
    }
    let mut executions: u64 = 0;
    let mut max_points = 0usize;
    let mut outcomes = std::collections::BTreeSet::new();
    let mut viol: Option<Value> = None;
    let mut error: Option<String> = root.error.clone();
    let mut capped = false;
    let mut deadlocked = false;
    let mut deadlock_viol: Option<Value> = None;
    let mut blocked_execs: u64 = 0;
    let mut hit_block_cap = false;
    let mut examine = |x: &Execution<Vec<String>>, full: &[(usize, u32, Option<usize>)], n: u64| -> bool {
        let res: Vec<Vec<String>> = x.results.iter().map(|r| r.clone().unwrap_or_else(|| vec!["PANIC".to_string()])).collect();
        outcomes.insert(format!("{:?}", res));
        if res != baseline && viol.is_none() {
            viol = Some(json!({"exec": n, "choices": full.iter().map(|c| c.0).collect::<Vec<_>>(), "observed": format!("{:?}", res), "alone": format!("{:?}", baseline)}));
        }
        res != baseline
    };
    match child {
        None => {
            executions = 1;
            max_points = root.trace.len();
            if root.error.is_none() {
                examine(&root, &root_full, 0);
            }
        }
        Some(ci) => {
            if ci < children.len() {
                let mut stats = ExploreStats { executions: 0, max_points: 0, capped: false, abort: false };
                let mut n: u64 = 0;
                let mut stop = false;
                sched::explore(&make, children[ci].clone(), bound, stop_at.map(|s| s + 1).unwrap_or(cap), &mut stats, &mut |x: &Execution<Vec<String>>, full| {
                    if stop {
                        return false;
                    }
                    if x.deadlock {
                        // a real deadlock: every thread waits in a lock / once-cell of the code under test
                        deadlock_viol = Some(json!({"exec": n, "choices": full.iter().map(|c| c.0).collect::<Vec<_>>(), "observed": "DEADLOCK: every live thread waits in a synchronisation primitive of the code under test", "alone": format!("{:?}", baseline)}));
                        deadlocked = true;
                        stop = true;
                        return false;
                    }
                    if let Some(e) = &x.error {
                        error = Some(e.clone());
                        stop = true;
                        return false;
                    }
                    if x.infeasible {
                        blocked_execs += 1;
                        if blocked_execs >= 12 {
                            stop = true;
                            hit_block_cap = true;
                        }
                        return !stop;
                    }
                    if x.forced > 0 {
                        blocked_execs += 1;
                        // every such execution costs a stall period: after a few the job stops (reported as capped)
                        if blocked_execs >= 12 {
                            stop = true;
                            hit_block_cap = true;
                        }
                    }
                    examine(x, full, n);
                    n += 1;
                    !stop
                });
                executions = stats.executions;
                max_points = stats.max_points;
                capped = (stats.capped || hit_block_cap) && stop_at.is_none();
            }
        }
    }
    if viol.is_none() {
        viol = deadlock_viol;
    }
    let out = json!({
        "executions": executions,
        "max_points": max_points,
        "capped": capped,
        "children": children.len(),
        "points_per_thread": root.points_per_thread(h.threads.len()),
        "outcomes": outcomes.iter().take(64).collect::<Vec<_>>(),
        "violation": viol,
        "error": error,
        "blocked_executions": blocked_execs,
    });
    println!("{}", out);
    if deadlocked {
        // the worker threads are lost; leave without joining anything
        std::process::exit(0);
    }
    jsonpath_rust::verif::set_hook(None);
    0
}

fn run_sched_child(h_idx: usize, bound: usize, child: Option<usize>, stop_at: Option<u64>, cap: u64) -> Result<Value, String> {
    let exe = std::env::current_exe().map_err(|e| e.to_string())?;
    let mut cmd = Command::new(exe);
    cmd.args(["sched", &h_idx.to_string(), &bound.to_string(), &child.map(|c| c.to_string()).unwrap_or_else(|| "root".into()), &stop_at.map(|s| s.to_string()).unwrap_or_else(|| "-".into()), &cap.to_string()]);
    let out = cmd.output().map_err(|e| e.to_string())?;
    crate::watch::beat();
    if !out.status.success() {
        return Err(format!("schedule exploration subprocess failed: {:?} {}", out.status, String::from_utf8_lossy(&out.stderr).lines().last().unwrap_or("")));
    }
    let text = String::from_utf8_lossy(&out.stdout);
    let line = text.lines().last().unwrap_or("");
    serde_json::from_str(line).map_err(|e| format!("bad output of schedule subprocess: {} ({})", e, line.chars().take(200).collect::<String>()))
}

fn part_schedules(thorough: bool) -> Result<Acc, String> {
    let bound = if thorough { 3 } else { 2 };
    let cap: u64 = if thorough { 2_000_000 } else { 200_000 };
    let hs = harnesses(thorough);
    // harnesses are explored concurrently: each one's jobs have a long sequential tail (the first subtree holds about
    // half of the schedules), overlapping them keeps the cores busy
    let per: Vec<Result<Acc, String>> = hs.par_iter().enumerate().map(|(hi, h)| explore_harness(hi, h, bound, cap)).collect();
    let mut total = Acc::new();
    for r in per {
        total = total.merge(r?);
    }
    Ok(total)
}

fn explore_harness(hi: usize, h: &Harness, bound: usize, cap: u64) -> Result<Acc, String> {
    let mut total = Acc::new();
    {
        let mut found = false;
        for b in 0..=bound {
            let root = run_sched_child(hi, b, None, None, cap)?;
            // the third preemption is explored only where it is affordable: harnesses with at most 90 scheduling points
            let points: u64 = root["points_per_thread"].as_array().map(|a| a.iter().map(|x| x.as_u64().unwrap_or(0)).sum()).unwrap_or(0);
            if b >= 3 && points > 90 {
                total.bump("harnesses_limited_to_2_preemptions", 1);
                break;
            }
            if let Some(e) = root["error"].as_str() {
                return Err(format!("schedule exploration failed in harness {:?}: {}", h.name, e));
            }
            let nchildren = root["children"].as_u64().unwrap_or(0) as usize;
            let jobs: Vec<Option<usize>> = std::iter::once(None).chain((0..nchildren).map(Some)).collect();
            // jobs run in chunks: when most jobs of a chunk stop because threads keep blocking in a primitive the
            // scheduler does not model (every such execution costs a stall period), the harness is given up (capped)
            let mut results: Vec<(Option<usize>, Result<Value, String>)> = vec![];
            let mut gave_up = false;
            for chunk in jobs.chunks(16) {
                let part: Vec<(Option<usize>, Result<Value, String>)> = chunk.par_iter().map(|c| (*c, if c.is_none() { Ok(root.clone()) } else { run_sched_child(hi, b, *c, None, cap) })).collect();
                let blocked_jobs = part.iter().filter(|(_, r)| r.as_ref().map_or(false, |v| v["blocked_executions"].as_u64().unwrap_or(0) >= 12)).count();
                let found = part.iter().any(|(_, r)| r.as_ref().map_or(false, |v| !v["violation"].is_null()));
                let n = part.len();
                results.extend(part);
                if found {
                    break;
                }
                if blocked_jobs * 2 >= n && n > 1 {
                    gave_up = true;
                    break;
                }
            }
            let mut executions = 0u64;
            let mut max_points = 0u64;
            let mut capped = false;
            let mut outcomes = std::collections::BTreeSet::new();
            let mut viol: Option<(Option<usize>, Value)> = None;
            for (c, r) in results {
                let r = r?;
                if let Some(e) = r["error"].as_str() {
                    return Err(format!("schedule exploration failed in harness {:?}: {}", h.name, e));
                }
                executions += r["executions"].as_u64().unwrap_or(0);
                max_points = max_points.max(r["max_points"].as_u64().unwrap_or(0));
                capped |= r["capped"].as_bool().unwrap_or(false) || gave_up;
                for o in r["outcomes"].as_array().cloned().unwrap_or_default() {
                    outcomes.insert(o.as_str().unwrap_or("").to_string());
                }
                if viol.is_none() && !r["violation"].is_null() {
                    viol = Some((c, r["violation"].clone()));
                }
            }
            if b == bound || viol.is_some() || (b == 2 && points > 90) {
                total.evals += executions;
                total.transitions += executions;
                total.states += outcomes.len() as u64;
                total.nontrivial += executions;
                total.max("max_scheduling_points_per_execution", max_points);
                if capped {
                    total.bump("harnesses_hitting_the_execution_cap", 1);
                }
                let ppt = root["points_per_thread"].clone();
                total.outcome(|| format!("{}: {} schedules with <= {} preemptions, points per thread {}, {} distinct outcome(s){}", h.name, executions, b, ppt, outcomes.len(), if capped { " (CAPPED)" } else { "" }));
                total.sample(|| json!({"harness": h.name, "schedules": executions, "preemption_bound": b, "points_per_thread": ppt, "distinct_outcomes": outcomes.len()}));
            }
            if let Some((c, v)) = viol {
                // reproduce in two more fresh processes before trusting it
                let n = v["exec"].as_u64().unwrap_or(0);
                let dl0 = v["observed"].as_str().map_or(false, |o| o.starts_with("DEADLOCK"));
                let r1 = run_sched_child(hi, b, c, if dl0 { None } else { Some(n) }, cap)?;
                let r2 = run_sched_child(hi, b, c, if dl0 { None } else { Some(n) }, cap)?;
                // a deadlock is reached through executions in which threads were set aside after stall periods: which
                // execution number hits it depends on timing, the verdict does not
                let is_deadlock = |x: &Value| x["observed"].as_str().map_or(false, |o| o.starts_with("DEADLOCK"));
                let both_deadlock = is_deadlock(&v) && is_deadlock(&r1["violation"]) && is_deadlock(&r2["violation"]);
                if !both_deadlock && (r1["violation"].is_null() || r1["violation"] != r2["violation"]) {
                    return Err(format!("failing schedule does not reproduce deterministically in harness {:?}: {} / {} / {}", h.name, v, r1["violation"], r2["violation"]));
                }
                total.viol(
                    format!(
                        "harness {:?}: with at most {} preemptions, execution #{} of subtree {:?} (schedule {}) makes the threads observe {} but evaluated alone the operations give {}",
                        h.name, b, n, c, v["choices"], v["observed"], v["alone"]
                    ),
                    json!({"kind": "schedule", "class": "schedule", "harness_index": hi, "harness": h.name, "bound": b, "subtree": c, "exec": n, "choices": v["choices"], "deadlock": is_deadlock(&v)}),
                );
                found = true;
                break;
            }
        }
        let _ = found;
    }
    Ok(total)
}

/// replay one recorded schedule: the same subtree job in a fresh process, stopped at the recorded execution, twice
pub fn replay_schedule(case: &Value, _run: &Run) -> Acc {
    let mut acc = Acc::new();
    let hi = case["harness_index"].as_u64().unwrap_or(0) as usize;
    let b = case["bound"].as_u64().unwrap_or(2) as usize;
    let c = case["subtree"].as_u64().map(|x| x as usize);
    let n = case["exec"].as_u64().unwrap_or(0);
    let deadlock = case["deadlock"].as_bool().unwrap_or(false);
    // a deadlock is found again by exploring the same subtree (which execution hits it depends on timing)
    let stop = if deadlock { None } else { Some(n) };
    let r1 = run_sched_child(hi, b, c, stop, if deadlock { 200_000 } else { u64::MAX / 2 });
    let r2 = run_sched_child(hi, b, c, stop, if deadlock { 200_000 } else { u64::MAX / 2 });
    match (r1, r2) {
        (Ok(a), Ok(b2)) => {
            println!("harness  : {}", case["harness"]);
            println!("run 1    : {}", a["violation"]);
            println!("run 2    : {}", b2["violation"]);
            let dl = |x: &Value| x["violation"]["observed"].as_str().map_or(false, |o| o.starts_with("DEADLOCK"));
            if deadlock {
                if dl(&a) && dl(&b2) {
                    acc.viol(format!("harness {}: deadlock again (schedule {})", case["harness"], a["violation"]["choices"]), case.clone());
                }
                return acc;
            }
            if a["violation"] != b2["violation"] {
                eprintln!("replay is not deterministic");
                std::process::exit(2);
            }
            if !a["violation"].is_null() {
                acc.viol(format!("harness {}: schedule {} gives {} ; alone {}", case["harness"], a["violation"]["choices"], a["violation"]["observed"], a["violation"]["alone"]), case.clone());
            }
        }
        (a, b2) => {
            eprintln!("replay failed: {:?} {:?}", a.err(), b2.err());
            std::process::exit(2);
        }
    }
    acc
}

pub fn replay_history(case: &Value, _run: &Run) -> Acc {
    let mut acc = Acc::new();
    let idx: Vec<usize> = case["ops"].as_array().map(|a| a.iter().map(|x| x.as_u64().unwrap_or(0) as usize).collect()).unwrap_or_default();
    let ops = ops();
    if idx.is_empty() {
        return acc;
    }
    let ctx = HistCtx::new();
    if case["class"] == "in-process window" && !case["first"].is_null() {
        let n = ops.len();
        let baseline: Vec<String> = match (0..n).map(|i| run_child(&[i])).collect::<Result<Vec<_>, _>>() {
            Ok(b) => b,
            Err(e) => {
                eprintln!("replay failed: {}", e);
                std::process::exit(2);
            }
        };
        match run_windows_child(case["first"].as_u64().unwrap_or(0) as usize, case["w"].as_u64().unwrap_or(3) as usize, &baseline) {
            Ok(r) => {
                println!("windows child: {}", r);
                if !r["violation"].is_null() {
                    acc.viol(format!("windows starting with operation {}: {}", case["first"], r["violation"]), case.clone());
                }
            }
            Err(e) => {
                eprintln!("replay failed: {}", e);
                std::process::exit(2);
            }
        }
        return acc;
    }
    let last = *idx.last().unwrap();
    let base = run_child(&[last]);
    let hist = run_child(&idx);
    println!("history          : {:?}", idx.iter().map(|i| format!("{:?} {}", ops[*i], ctx.queries[ops[*i].query as usize])).collect::<Vec<_>>());
    println!("alone            : {:?}", base);
    println!("after the history: {:?}", hist);
    if base != hist {
        acc.viol(format!("history {:?}: last operation returns {:?}, alone {:?}", idx, hist, base), case.clone());
    }
    acc
}

// ---------------------------------------------------------------------------------------------
// supplementary pass (NOT exhaustive, not part of the coverage statement): free-running threads
//
// The schedule exploration above only switches threads at the hooks. A race whose window lies between two
// synchronisation operations that a change introduces itself (e.g. a process-wide cache behind a lock) contains no
// hook and is invisible to it. This pass lets real threads run freely over thousands of distinct query texts through
// the string entry points and compares every result with a sequential baseline. It can only produce true alarms
// (a mismatch or panic is a genuine violation of C12); its silence proves nothing and is not counted as coverage.

fn part_free_running(thorough: bool) -> Acc {
    let mut acc = Acc::new();
    let doc = Arc::new(Shared(json!({"k": (0..40).map(|i| json!({"n": i, "s": format!("s{}", i)})).collect::<Vec<_>>(), "p": "s1.*"})));
    let nq = if thorough { 6000 } else { 2600 };
    let queries: Arc<Vec<String>> = Arc::new(
        (0..nq)
            .map(|i| match i % 5 {
                0 => format!("$.k[{}]", i % 40),
                1 => format!("$.k[?@.n=={}].s", i),
                2 => format!("$.k[?@.n<{}&&@.n>{}].n", i % 40 + 1, (i % 40) as i64 - 2),
                3 => format!("$..[?@.s=='s{}']", i % 97),
                _ => format!("$.k[{}:{}].n", i % 7, i % 11 + 2),
            })
            .collect(),
    );
    // sequential baseline on a separate (equal) document so that it shares nothing with the threads but its text
    let base_doc = doc.0.clone();
    let pv2 = |q: &str, d: &Value| pv(q, d);
    let baseline: Arc<Vec<String>> = Arc::new(queries.iter().map(|q| pv2(q, &base_doc)).collect());
    let nthreads = 8;
    let bad: Arc<std::sync::Mutex<Vec<(usize, String)>>> = Arc::new(std::sync::Mutex::new(vec![]));
    let barrier = Arc::new(std::sync::Barrier::new(nthreads));
    let mut hs = vec![];
    for t in 0..nthreads {
        let (doc, queries, baseline, bad, barrier) = (doc.clone(), queries.clone(), baseline.clone(), bad.clone(), barrier.clone());
        hs.push(std::thread::spawn(move || {
            barrier.wait();
            let n = queries.len();
            for pass in 0..3 {
                for k in 0..n {
                    // all threads walk the same list; even threads in step, odd threads a little behind
                    let i = (k + if t % 2 == 0 { 0 } else { n - 3 } + pass * 7) % n;
                    let r = pv(&queries[i], &doc.0);
                    if r != baseline[i] {
                        let mut b = bad.lock().unwrap();
                        if b.len() < 5 {
                            b.push((i, r));
                        }
                    }
                }
            }
        }));
    }
    for h in hs {
        let _ = h.join();
    }
    acc.bump("supplementary_free_running_calls_not_counted_as_coverage", (nthreads * 3 * queries.len()) as u64);
    for (i, r) in bad.lock().unwrap().iter() {
        acc.viol(
            format!("with 8 free-running threads on one document, {} returned {} ; evaluated alone it returns {}", queries[*i], r, baseline[*i]),
            json!({"kind": "free-running", "class": "free-running threads (supplementary, sampled)", "query": queries[*i]}),
        );
    }
    acc
}

pub fn replay_free_running(case: &Value, _run: &Run) -> Acc {
    println!("re-running the free-running pass (sampled: a race may need several attempts); recorded query: {}", case["query"]);
    let mut acc = Acc::new();
    for _ in 0..5 {
        let a = part_free_running(true);
        if a.viol_count > 0 {
            acc = a;
            break;
        }
    }
    acc
}

// ---------------------------------------------------------------------------------------------
// part 4: Send + Sync (type check; a side condition, see DESIGN.md)

fn part_static(run: &Run, acc: &mut Acc) -> Result<(), String> {
    let dir = format!("{}/mc/static_assert", run.verif_dir);
    let out = Command::new("cargo")
        .args(["build", "--offline", "--quiet"])
        .current_dir(&dir)
        .env("CARGO_TARGET_DIR", format!("{}/mc/target/static_assert", run.verif_dir))
        .env("CARGO_NET_OFFLINE", "true")
        .output()
        .map_err(|e| format!("cannot run cargo for static_assert: {}", e))?;
    acc.evals += 1;
    if !out.status.success() {
        let err = String::from_utf8_lossy(&out.stderr);
        if err.contains("cannot be sent between threads safely") || err.contains("cannot be shared between threads safely") {
            acc.viol(
                format!("a parsed query (or error / result type) is no longer Send + Sync, so it cannot be used from many threads at the same time: {}", err.lines().filter(|l| l.contains("error") || l.contains("within")).take(4).collect::<Vec<_>>().join(" | ")),
                json!({"kind": "static", "class": "Send + Sync"}),
            );
        } else {
            return Err(format!("static_assert does not build: {}", err.lines().take(12).collect::<Vec<_>>().join("\n")));
        }
    }
    Ok(())
}

pub fn replay_static(_case: &Value, run: &Run) -> Acc {
    let mut acc = Acc::new();
    if let Err(e) = part_static(run, &mut acc) {
        eprintln!("{}", e);
        std::process::exit(2);
    }
    acc
}

// ---------------------------------------------------------------------------------------------
// part 2d: the first call of a fresh process against the same call late in a long-lived process

fn cold_docs() -> Vec<Value> {
    let mut v = hist_docs();
    v.push(json!({"a": [{"a": 1, "b": 1}, {"a": "x", "b": 2}, [1, 2, [3]], "x"], "b": {"a": 1, "p": "x"}, "p": "x", "c": 1, "_b1": [0]}));
    v
}

/// child: evaluate one query string on one document as the first thing this process does
pub fn eval_fresh_child(q: &str, doc: usize) -> i32 {
    let docs = cold_docs();
    println!("{}", pv(q, &docs[doc.min(docs.len() - 1)]));
    0
}

/// Every sentence of the generated query set is evaluated (through a string entry point) as the FIRST call of a
/// fresh process and, in this long-lived process after everything the earlier parts did, again: both must agree.
fn part_cold_vs_warm(thorough: bool) -> Result<Acc, String> {
    let docs = cold_docs();
    let mut qs: Vec<String> = sentences::sentences(thorough).iter().map(render::query).collect();
    qs.extend(long_queries());
    qs.extend(ESCAPED.iter().map(|s| s.to_string()));
    let stride = if thorough { 2 } else { 1 };
    let exe = std::env::current_exe().map_err(|e| e.to_string())?;
    let res: Vec<Result<Acc, String>> = qs
        .par_iter()
        .enumerate()
        .filter(|(i, _)| i % stride == 0)
        .map(|(i, q)| {
            let mut acc = Acc::new();
            let d = i % docs.len();
            let out = Command::new(&exe).args(["eval-fresh", q, &d.to_string()]).output().map_err(|e| e.to_string())?;
            if !out.status.success() {
                return Err(format!("eval-fresh child failed for {:?}: {:?}", q, out.status));
            }
            let cold = String::from_utf8_lossy(&out.stdout).trim().to_string();
            let warm = pv(q, &docs[d]);
            acc.evals += 1;
            acc.transitions += 1;
            if cold != warm {
                acc.viol(
                    format!("{} on {}: as the first call of a fresh process it returns {} but late in a long-lived process {}", q, docs[d], cold, warm),
                    json!({"kind": "cold-warm", "class": "first call of a fresh process vs late call", "query": q, "doc": d}),
                );
            } else if cold.len() > 2 {
                acc.nontrivial += 1;
            }
            Ok(acc)
        })
        .collect();
    let mut acc = Acc::new();
    for r in res {
        acc = acc.merge(r?);
    }
    acc.states += 2;
    Ok(acc)
}

pub fn replay_cold_warm(case: &Value, _run: &Run) -> Acc {
    let mut acc = Acc::new();
    let q = case["query"].as_str().unwrap_or("$");
    let d = case["doc"].as_u64().unwrap_or(0) as usize;
    let exe = std::env::current_exe().expect("exe");
    let out = Command::new(&exe).args(["eval-fresh", q, &d.to_string()]).output().expect("child");
    let cold = String::from_utf8_lossy(&out.stdout).trim().to_string();
    // the "warm" side of a replay: after the history alphabet has been run once in this process
    let ctx = HistCtx::new();
    for op in ops() {
        let _ = ctx.exec(op);
    }
    let warm = pv(q, &cold_docs()[d.min(cold_docs().len() - 1)]);
    println!("query: {}\ncold : {}\nwarm : {}", q, cold, warm);
    if cold != warm {
        acc.viol(format!("{}: first call of a fresh process {} vs after a history {}", q, cold, warm), case.clone());
    }
    acc
}

pub fn run(tier: &str) -> i32 {
    let run = Run::new("C12", tier);
    let th = run.thorough();
    // the schedule exploration comes first: if a change makes threads block each other for good, the explorer reports
    // the schedule, whereas the free-running multi-threaded parts below would just hang (stall watchdog)
    let t0 = std::time::Instant::now();
    let c = match part_schedules(th) {
        Ok(c) => c,
        Err(e) => {
            eprintln!("MACHINERY: {}", e);
            return 2;
        }
    };
    eprintln!("  schedules: {} executions, {:.1}s", c.evals, t0.elapsed().as_secs_f64());
    for o in &c.outcomes {
        eprintln!("    {}", o);
    }
    if c.viol_count > 0 {
        eprintln!("  the schedule exploration found violations: the remaining parts are skipped");
        return run.finish(c, "schedule exploration only (it found violations; the other parts were skipped)", &[], true, json!({}));
    }
    let t0 = std::time::Instant::now();
    let a = part_entry_points(th);
    eprintln!("  entry points: {} cases, {:.1}s", a.evals, t0.elapsed().as_secs_f64());
    let t0 = std::time::Instant::now();
    let a1 = part_entry_points_bfs(th);
    eprintln!("  entry points on nodelist-transition edges: {} edges, {:.1}s", a1.transitions, t0.elapsed().as_secs_f64());
    let a = a.merge(a1);
    let t0 = std::time::Instant::now();
    let b = match part_histories(th) {
        Ok(b) => b,
        Err(e) => {
            eprintln!("MACHINERY: {}", e);
            return 2;
        }
    };
    eprintln!("  histories: {} operations, {:.1}s", b.evals, t0.elapsed().as_secs_f64());
    let t0 = std::time::Instant::now();
    let b2 = part_update_histories(th);
    eprintln!("  queries interleaved with in-place updates: {} evaluations over {} update sequences, {:.1}s", b2.evals, b2.states, t0.elapsed().as_secs_f64());
    let b = b.merge(b2);
    let t0 = std::time::Instant::now();
    let b3 = match part_cold_vs_warm(th) {
        Ok(x) => x,
        Err(e) => {
            eprintln!("MACHINERY: {}", e);
            return 2;
        }
    };
    eprintln!("  first call of a fresh process vs late call: {} queries, {:.1}s", b3.evals, t0.elapsed().as_secs_f64());
    let b = b.merge(b3);
    let t0 = std::time::Instant::now();
    let d = part_free_running(th);
    eprintln!("  supplementary free-running pass (sampled, not coverage): {:.1}s", t0.elapsed().as_secs_f64());
    let mut acc = a.merge(b).merge(c).merge(d);
    if let Err(e) = part_static(&run, &mut acc) {
        eprintln!("MACHINERY: {}", e);
        return 2;
    }
    run.finish(
        acc,
        "entry points: one case = (query string, document) through query, query_only_path, query_with_path, a query parsed once (twice, and cloned) with the document serialized before and after, plus every edge of a nodelist-transition BFS (names universe, small universe, panel) whose rendered query string must give through the string entry points what the query assembled from parsed segments gives; histories: every pair of operations of a 58-operation alphabet (evaluations through the four entry points, 5 queries the parser must reject, escaped names of equal length, long queries with and without a filter) in its own fresh process and every window of length w (the windows that start with the same operation in one fresh process, in lexicographic order), each result compared with the same operation run first in a fresh process (states = operations, transitions = executed operations); update histories: every sequence of up to 2 (3) in-place writes through reference_mut on a live document, a panel of 12 queries evaluated before and after each write on the live document and on an equal freshly built one (differential); cold vs warm: every sentence of the generated set as the first call of a fresh process and again late in the long-lived checking process; schedules: stateless depth-first exploration of every interleaving with at most k preemptions of 2-3 real threads sharing one parsed query and one document, scheduling points = the verif hooks at every evaluation step, each thread's results compared with the operations run alone (transitions = complete schedules, states = distinct observed outcomes); non-trivial = operations / schedules executed",
        &[
            "scheduling points exist only at the hooks; safe Rust without interior mutability has no other place where threads can interact",
            "Send + Sync of JpQuery / JsonPathError / QueryRef is a type-check side condition (mc/static_assert)",
            "a supplementary free-running pass (8 threads x thousands of distinct queries, compared with a sequential baseline) is sampled, can only raise true alarms and is not part of any count above",
        ],
        true,
        json!({}),
    )
}
