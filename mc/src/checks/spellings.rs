//! C13: RFC-equivalent spellings of a query select the same nodes in the same order (differential check
//! against the canonical spelling, up to k simultaneous deviations).

use crate::acc::{Acc, Run};
use crate::gen::sentences;
use crate::gen::spell::{parts, Spelling};
use crate::imp::{self, AddrMap, ImplOut};
use crate::model::parse::rfc_parse;
use rayon::prelude::*;
use serde_json::{json, Value};

fn panel() -> Vec<Value> {
    let mut v = crate::checks::lang::eval_panel();
    v.push(json!({"a": [{"a": 1, "b": 1}, {"a": "x", "b": 2}, [1, 2, [3]], "x"], "b": {"a": 1, "p": "x"}, "p": "x", "c": 1, "_b1": [0]}));
    v.push(json!([[1, 2, 3], {"a": [1, 2, 3], "b": 15}, {"a": {"a": "s", "p": "s"}, "b": "y"}, 15, "x", "y", true, null, 1]));
    v.push(json!({"a": "s", "b": 1, "p": "s"}));
    v.push(json!([{"a": {"b": 1}}, {"ab": 1}, {"a": [0, 1], "a1": 2}, {"a": [0, 2], "a1": 1}, {"a": {"b": 2}, "ab": 1}, {"a": 1}]));
    // the same documents with decoy members whose NAMES are the spellings of their siblings' names (`'a'`, `"a"`,
    // `.a`, `['a']`): no spelling of a name selector may pick them up, every spelling of a wildcard must
    let n = v.len();
    for k in 0..n {
        if ser_has_object(&v[k]) {
            let d = with_decoys(&v[k]);
            v.push(d);
        }
    }
    v
}

fn ser_has_object(v: &Value) -> bool {
    match v {
        Value::Object(m) => !m.is_empty(),
        Value::Array(a) => a.iter().any(ser_has_object),
        _ => false,
    }
}

fn with_decoys(v: &Value) -> Value {
    match v {
        Value::Array(a) => Value::Array(a.iter().map(with_decoys).collect()),
        Value::Object(m) => {
            let mut out = serde_json::Map::new();
            for (k, _) in m {
                out.insert(format!("'{}'", k), json!("decoy-single-quoted"));
                out.insert(format!("\"{}\"", k), json!(["decoy-double-quoted"]));
            }
            for (k, x) in m {
                out.insert(k.clone(), with_decoys(x));
            }
            for (k, _) in m {
                out.insert(format!(".{}", k), json!({"a": "decoy-dotted"}));
                out.insert(format!("['{}']", k), json!(1));
            }
            Value::Object(out)
        }
        other => other.clone(),
    }
}

fn ids_only(o: &ImplOut) -> Result<Vec<u32>, String> {
    match o {
        ImplOut::Ok(v) => Ok(v.iter().map(|x| x.0).collect()),
        ImplOut::Err(e) => Err(format!("Err({})", e.lines().last().unwrap_or("").trim())),
        ImplOut::Panic(p) => Err(format!("PANIC({})", p)),
    }
}

/// a difference between two spellings is licensed only if the reference model, with the deviation switches of the
/// findings listed for C13 switched on, reproduces BOTH observed results exactly
fn explained(run: &Run, acc: &mut Acc, canon: &str, variant: &str, doc: &Value, a: &Result<Vec<u32>, String>, b: &Result<Vec<u32>, String>) -> bool {
    use crate::checks::common::DocCtx;
    use crate::model::eval::EDev;
    let allowed = run.findings.edev_mask("C13");
    if allowed == 0 {
        return false;
    }
    let (qa, qb) = match (rfc_parse(canon), rfc_parse(variant)) {
        (Ok(x), Ok(y)) => (x.0, y.0),
        _ => return false,
    };
    let dc = DocCtx::new(doc);
    for mask in crate::findings::candidate_masks(allowed) {
        let dev = EDev::from_mask(mask);
        let ma = dc.model_ids(&qa, dev);
        let mb = dc.model_ids(&qb, dev);
        if let (Some(ma), Some(mb), Ok(a), Ok(b)) = (ma, mb, a, b) {
            if &ma == a && &mb == b {
                for id in run.findings.ids_for_mask("C13", mask) {
                    acc.known(&id, || format!("{:?} vs {:?} on {}", canon, variant, doc));
                }
                return true;
            }
        }
    }
    false
}

fn check_variant(run: &Run, acc: &mut Acc, sp: &Spelling, dev: &[(usize, usize)], canon: &str, canon_res: &[Result<Vec<u32>, String>], docs: &[(Value, AddrMap)]) -> bool {
    let s = sp.render(dev);
    if s == canon {
        return true;
    }
    acc.evals += 1;
    // the generator must only produce valid queries (machinery guard)
    if rfc_parse(&s).is_err() {
        acc.bump("MACHINERY_invalid_spelling", 1);
        acc.outcome(|| format!("invalid spelling generated: {:?} from {:?}", s, canon));
        return false;
    }
    for (k, (doc, am)) in docs.iter().enumerate() {
        let r = ids_only(&imp::run_with_path(&s, doc, am));
        if r != canon_res[k] {
            if explained(run, acc, canon, &s, doc, &canon_res[k], &r) {
                return true;
            }
            acc.viol(
                format!("{:?} and {:?} are equivalent spellings but on {} the first gives {:?} and the second {:?}", canon, s, doc, canon_res[k], r),
                json!({"kind": "spelling", "class": format!("{} deviation(s)", dev.len()), "canonical": canon, "variant": s, "doc": doc}),
            );
            return true;
        }
    }
    acc.nontrivial += 1;
    acc.sample(|| json!({"canonical": canon, "variant": s}));
    true
}

/// spellings of one number at magnitudes where integer and float representations part ways
fn number_magnitudes(acc: &mut Acc) {
    let groups: Vec<(Vec<&str>, Value)> = vec![
        (vec!["1e15", "1E15", "1.0e15", "1000000000000000.0", "1000000000000000", "10e14", "0.1e16"], json!([1000000000000000i64, 1e15, 999999999999999i64, 1000000000000001i64, "1e15"])),
        (vec!["9007199254740991", "9007199254740991.0", "9.007199254740991e15", "9007199254740991e0"], json!([9007199254740991i64, 9007199254740991.0, 9007199254740990i64, 9007199254740992u64])),
        (vec!["1e19", "1.0e19", "10000000000000000000.0", "1E+19", "10e18", "0.1e20"], json!([1e19, 10000000000000000000u64, 9223372036854775807i64, 9223372036854775808u64, 1.0000000000000002e19, "1e19"])),
        (vec!["-1e19", "-1.0e19", "-10000000000000000000.0", "-1E+19"], json!([-1e19, -9223372036854775808i64, -9223372036854775807i64, -1.0000000000000002e19])),
        (vec!["1e22", "1.0e22", "10000000000000000000000.0", "10e21"], json!([1e22, 1e21, 1.0000000000000002e22])),
        (vec!["1e-7", "1.0e-7", "0.0000001", "10e-8", "0.1E-6"], json!([1e-7, 1e-8, 0, 1.0000000000000002e-7])),
        (vec!["0.5", "5e-1", "0.50", "50e-2", "0.05E1"], json!([0.5, 0, 1, "0.5"])),
        (vec!["0", "0.0", "-0", "-0.0", "0e0", "0E-5", "-0e9"], json!([0, 0.0, -0.0, 1e-300, false, null, ""])),
    ];
    for (spellings, doc) in &groups {
        let am = AddrMap::new(doc);
        for op in ["==", "!=", "<", "<=", ">", ">="] {
            let canon = format!("$[?@{}{}]", op, spellings[0]);
            let base = ids_only(&imp::run_with_path(&canon, doc, &am));
            let canon_l = format!("$[?{}{}@]", spellings[0], op);
            let base_l = ids_only(&imp::run_with_path(&canon_l, doc, &am));
            for s in &spellings[1..] {
                for (q, b, c) in [(format!("$[?@{}{}]", op, s), &base, &canon), (format!("$[?{}{}@]", s, op), &base_l, &canon_l)] {
                    acc.evals += 1;
                    let r = ids_only(&imp::run_with_path(&q, doc, &am));
                    if &r != b {
                        acc.viol(
                            format!("{:?} and {:?} spell the same number but on {} give {:?} and {:?}", c, q, doc, b, r),
                            json!({"kind": "spelling", "class": "number spellings (magnitudes)", "canonical": c, "variant": q, "doc": doc}),
                        );
                    } else {
                        acc.nontrivial += 1;
                    }
                }
            }
            // literal against literal: every pair of spellings is the same number
            for s in &spellings[1..] {
                let q = format!("$[?{}{}{}]", spellings[0], op, s);
                let want = matches!(op, "==" | "<=" | ">=");
                acc.evals += 1;
                let r = ids_only(&imp::run_with_path(&q, doc, &am));
                let n = doc.as_array().map(|a| a.len()).unwrap_or(0);
                if r.as_ref().map(|v| v.len()) != Ok(if want { n } else { 0 }) {
                    acc.viol(
                        format!("{} compares two spellings of one number: it must keep {} children of {}, got {:?}", q, if want { "all" } else { "no" }, doc, r),
                        json!({"kind": "spelling", "class": "number spellings (literal vs literal)", "canonical": format!("$[?{}{}{}]", spellings[0], op, spellings[0]), "variant": q, "doc": doc}),
                    );
                }
            }
        }
    }
}

fn number_family(acc: &mut Acc) {
    let spellings = ["100", "1e2", "1E2", "1e+2", "1.0e2", "100.0", "10e1", "1000e-1", "100.00", "0.1e3", "1E+2", "100e0", "100e-0"];
    let doc = json!([100, 100.0, "100", 99, 100.5, 1e2, -100, [100], {"a": 100}, null]);
    let am = AddrMap::new(&doc);
    for op in ["==", "!=", "<", "<=", ">", ">="] {
        let canon = format!("$[?@{}100]", op);
        let base = ids_only(&imp::run_with_path(&canon, &doc, &am));
        for s in spellings {
            for q in [format!("$[?@{}{}]", op, s), format!("$[? @ {} {} ]", op, s)] {
                acc.evals += 1;
                let r = ids_only(&imp::run_with_path(&q, &doc, &am));
                if r != base {
                    acc.viol(
                        format!("{:?} and {:?} spell the same number but on {} give {:?} and {:?}", canon, q, doc, base, r),
                        json!({"kind": "spelling", "class": "number spellings", "canonical": canon, "variant": q, "doc": doc}),
                    );
                } else {
                    acc.nontrivial += 1;
                }
            }
        }
        // and on the left-hand side
        let canon = format!("$[?100{}@]", op);
        let base = ids_only(&imp::run_with_path(&canon, &doc, &am));
        for s in spellings {
            let q = format!("$[?{}{}@]", s, op);
            acc.evals += 1;
            let r = ids_only(&imp::run_with_path(&q, &doc, &am));
            if r != base {
                acc.viol(
                    format!("{:?} and {:?} spell the same number but on {} give {:?} and {:?}", canon, q, doc, base, r),
                    json!({"kind": "spelling", "class": "number spellings", "canonical": canon, "variant": q, "doc": doc}),
                );
            } else {
                acc.nontrivial += 1;
            }
        }
    }
}

/// blank space is insignificant only where the grammar has `S`: queries that differ in the blank runs *inside* a
/// name or a string literal are different queries, and each of them is still equivalent to its own other spellings.
/// The pairs are evaluated back to back (either order) so that anything keyed on a blank-normalised text collides.
fn significant_blanks(acc: &mut Acc) {
    let doc = json!({"a b": 1, "a  b": 2, "a\tb": 3, " ": 4, "  ": 5, "s": "a  b", "t": "a b", "arr": [{"k": "x y"}, {"k": "x  y"}, {"k": "x\ty"}]});
    let am = AddrMap::new(&doc);
    let groups: Vec<Vec<(&str, &str)>> = vec![
        vec![("$['a b']", "$[\"a b\"]"), ("$['a  b']", "$[\"a  b\"]")],
        vec![("$[' ']", "$[\" \"]"), ("$['  ']", "$[\"  \"]")],
        vec![("$.arr[?@.k=='x y']", "$.arr[?(@.k == \"x y\")]"), ("$.arr[?@.k=='x  y']", "$.arr[?(@.k == \"x  y\")]")],
        vec![("$[?@=='a b']", "$[ ?@ == \"a b\" ]"), ("$[?@=='a  b']", "$[ ?@ == \"a  b\" ]")],
        vec![("$.arr[?search(@.k,'x y')]", "$.arr[?search(@.k , \"x y\")]"), ("$.arr[?search(@.k,'x  y')]", "$.arr[?search(@.k , \"x  y\")]")],
    ];
    for g in &groups {
        for order in [[0usize, 1], [1, 0]] {
            // evaluate the two different queries back to back, then each one's second spelling
            let first = ids_only(&imp::run_with_path(g[order[0]].0, &doc, &am));
            let second = ids_only(&imp::run_with_path(g[order[1]].0, &doc, &am));
            for (k, base) in [(order[0], &first), (order[1], &second)] {
                acc.evals += 1;
                let alt = ids_only(&imp::run_with_path(g[k].1, &doc, &am));
                if &alt != base {
                    acc.viol(
                        format!("{:?} and {:?} are equivalent spellings but, evaluated right after {:?}, they give {:?} and {:?} on {}", g[k].0, g[k].1, g[1 - k].0, base, alt, doc),
                        json!({"kind": "spelling-sequence", "class": "blank runs inside strings", "first": g[order[0]].0, "second": g[order[1]].0, "canonical": g[k].0, "variant": g[k].1, "doc": doc}),
                    );
                } else {
                    acc.nontrivial += 1;
                }
            }
            // and the two different queries must not select the same nodes (they name different members / values)
            if first == second && first.as_ref().map_or(false, |v| !v.is_empty()) {
                acc.viol(
                    format!("{:?} and {:?} differ in a blank run inside a string but select the same nodes {:?} on {}", g[0].0, g[1].0, first, doc),
                    json!({"kind": "spelling-sequence", "class": "blank runs inside strings", "first": g[order[0]].0, "second": g[order[1]].0, "canonical": g[order[1]].0, "variant": g[order[1]].1, "doc": doc}),
                );
            }
        }
    }
}

/// `!f(..)`, `!(f(..))`, `(!f(..))`, `!((f(..)))` and their blank variants are one filter, also when `f` is one of the
/// extension functions and also when the call has no proper result (a missing or non-array argument)
fn negated_function_spellings(acc: &mut Acc) {
    let doc = json!({"elems": [{"x": 1, "y": [1, 2]}, {"x": "a", "y": "a"}, {"x": [1], "y": [[1]]}, {"y": [1]}, {"x": 3}, {"x": null, "y": null}], "l": [1, "a"], "s": "[1]", "n": 5});
    let am = AddrMap::new(&doc);
    let calls = [
        "in(@.x,$.l)", "in(@.x,@.y)", "in(@.x,$.s)", "in(@.x,$.n)", "in(@.x,$.zz)", "nin(@.x,$.l)", "nin(@.x,@.y)", "nin(@.x,$.n)", "nin(@.x,$.zz)", "any_of(@.y,$.l)", "any_of(@.y,$.n)", "none_of(@.y,$.l)",
        "none_of(@.y,$.zz)", "subset_of(@.y,$.l)", "subset_of(@.x,$.l)", "match(@.x,'a')", "match(@.x,'[')", "search(@.y,'a')", "search(@.x,@.y)", "match(@.zz,'a')",
    ];
    for c in calls {
        let canon = format!("$.elems[?!{}]", c);
        let base = ids_only(&imp::run_with_path(&canon, &doc, &am));
        for v in [format!("$.elems[?!({})]", c), format!("$.elems[?(!{})]", c), format!("$.elems[?!(({}))]", c), format!("$.elems[? ! {} ]", c), format!("$.elems[?!(!(!{}))]", c), format!("$.elems[?!{}&&!{}]", c, c), format!("$.elems[?!({}||{})]", c, c)] {
            acc.evals += 1;
            let r = ids_only(&imp::run_with_path(&v, &doc, &am));
            if r != base {
                acc.viol(
                    format!("{:?} and {:?} are equivalent spellings but on {} give {:?} and {:?}", canon, v, doc, base, r),
                    json!({"kind": "spelling", "class": "negated function tests", "canonical": canon, "variant": v, "doc": doc}),
                );
            } else {
                acc.nontrivial += 1;
            }
        }
        // and the un-negated spellings
        let canon = format!("$.elems[?{}]", c);
        let base = ids_only(&imp::run_with_path(&canon, &doc, &am));
        for v in [format!("$.elems[?({})]", c), format!("$.elems[?!(!{})]", c), format!("$.elems[?!(!({}))]", c), format!("$.elems[?{}||{}]", c, c)] {
            acc.evals += 1;
            let r = ids_only(&imp::run_with_path(&v, &doc, &am));
            if r != base {
                acc.viol(
                    format!("{:?} and {:?} are equivalent spellings but on {} give {:?} and {:?}", canon, v, doc, base, r),
                    json!({"kind": "spelling", "class": "negated function tests", "canonical": canon, "variant": v, "doc": doc}),
                );
            } else {
                acc.nontrivial += 1;
            }
        }
    }
}

const REJECTED_FIRST: [&str; 12] = [
    "$[?(length(@.a))]", "$[?(count(1)==1)]", "$[?(match(@.a))]", "$[?(@.a==9007199254740992)]", "$[?(@.a in @.b)]", "$[?((((length(@.a)))))]", "$[?count((@[9007199254740992]==1))>0]", "$[?match(@.a,!(@.b in 1))]",
    "$[", "$[?@.a==]", "$[?(((@.a==1))]", "$[?!(!(value(@.a)))]",
];

/// equivalent spellings still agree (with each other and with what they give on a fresh thread) after a long history
/// of REJECTED queries on the same thread: a failed parse must not leave anything behind
fn spellings_after_rejections(acc: &mut Acc) {
    let doc = json!([{"a": 1, "b": 2}, {"a": "x"}, {"b": 1}, [1], 1]);
    let groups: Vec<Vec<&str>> = vec![
        vec!["$[?@.a==1]", "$[?(@.a==1)]", "$[?((@.a==1))]", "$[?!(!(@.a==1))]", "$[?((((((@.a==1))))))]"],
        vec!["$[?@.a&&@.b]", "$[?(@.a)&&(@.b)]", "$[?((@.a&&@.b))]", "$[?(((@.a))&&((@.b)))]"],
        vec!["$[?length(@.a)==1]", "$[?(length(@.a)==1)]", "$[?((length(@.a))==1)]".trim_end_matches("X")],
        vec!["$[?match(@.a,'x')]", "$[?(match(@.a,'x'))]", "$[?((match(@.a,'x')))]", "$[?!(!match(@.a,'x'))]"],
        vec!["$[?count(@.*)>1]", "$[?(count(@.*)>1)]", "$[?!(count(@.*)<=1)||(count(@.*)>1)]"],
        vec!["$[?@[?@==1]]", "$[?(@[?(@==1)])]", "$[?((@[?((@==1))]))]"],
    ];
    // the third spelling of group 3 is not valid (a function in parentheses is not a comparable): drop invalid ones
    let groups: Vec<Vec<&str>> = groups.into_iter().map(|g| g.into_iter().filter(|q| rfc_parse(q).is_ok()).collect()).collect();
    let eval_all = |warm: bool| -> Vec<Vec<Result<Vec<u32>, String>>> {
        let doc = &doc;
        let groups = &groups;
        std::thread::scope(|s| {
            s.spawn(move || {
                let am = AddrMap::new(doc);
                if warm {
                    for _ in 0..40 {
                        for r in REJECTED_FIRST {
                            let _ = imp::run_with_path(r, doc, &am);
                            let _ = imp::parse(r);
                        }
                    }
                }
                groups.iter().map(|g| g.iter().map(|q| ids_only(&imp::run_with_path(q, doc, &am))).collect()).collect()
            })
            .join()
            .expect("spelling thread")
        })
    };
    let cold = eval_all(false);
    let warm = eval_all(true);
    for (gi, g) in groups.iter().enumerate() {
        for (qi, q) in g.iter().enumerate() {
            acc.evals += 1;
            if warm[gi][qi] != cold[gi][0] || cold[gi][qi] != cold[gi][0] {
                acc.viol(
                    format!("{:?} and {:?} are equivalent spellings; on a fresh thread they give {:?} and {:?}, after 480 rejected queries on the thread the second gives {:?} (document {})", g[0], q, cold[gi][0], cold[gi][qi], warm[gi][qi], doc),
                    json!({"kind": "spelling-after-rejections", "class": "spellings after a history of rejected queries", "canonical": g[0], "variant": q, "doc": doc}),
                );
            } else {
                acc.nontrivial += 1;
            }
        }
    }
}

pub fn replay_after_rejections(case: &Value, _run: &Run) -> Acc {
    let mut all = Acc::new();
    spellings_after_rejections(&mut all);
    let mut acc = Acc::new();
    for v in all.viols {
        if v.case["variant"] == case["variant"] {
            println!("{}", v.msg);
            acc.viol(v.msg, v.case);
        }
    }
    acc
}

pub fn replay_sequence(case: &Value, _run: &Run) -> Acc {
    let mut acc = Acc::new();
    let doc = &case["doc"];
    let am = AddrMap::new(doc);
    let g = |k: &str| case[k].as_str().unwrap_or("$").to_string();
    let a = ids_only(&imp::run_with_path(&g("first"), doc, &am));
    let b = ids_only(&imp::run_with_path(&g("second"), doc, &am));
    let c = ids_only(&imp::run_with_path(&g("canonical"), doc, &am));
    let v = ids_only(&imp::run_with_path(&g("variant"), doc, &am));
    println!("{} -> {:?}\n{} -> {:?}\n{} -> {:?}\n{} -> {:?}", g("first"), a, g("second"), b, g("canonical"), c, g("variant"), v);
    if c != v || (a == b && a.as_ref().map_or(false, |x| !x.is_empty())) {
        acc.viol(format!("after {:?} then {:?}: {:?} gives {:?} but its spelling {:?} gives {:?}", g("first"), g("second"), g("canonical"), c, g("variant"), v), case.clone());
    }
    acc
}

pub fn run(tier: &str) -> i32 {
    let run = Run::new("C13", tier);
    let th = run.thorough();
    let docs: Vec<(Value, AddrMap)> = panel()
        .into_iter()
        .map(|d| {
            let am = AddrMap::new(&d);
            (d, am)
        })
        .collect();
    let sents = sentences::sentences(th);
    let pair_every = if th { 6 } else { 40 };
    let triple_every = if th { 400 } else { usize::MAX };
    let acc = sents
        .par_iter()
        .enumerate()
        .map(|(n, q)| {
            let mut acc = Acc::new();
            let sp = parts(q);
            let canon = sp.render(&[]);
            if rfc_parse(&canon).is_err() {
                acc.bump("MACHINERY_invalid_spelling", 1);
                return acc;
            }
            let canon_res: Vec<Result<Vec<u32>, String>> = docs.iter().map(|(d, am)| ids_only(&imp::run_with_path(&canon, d, am))).collect();
            // canonical spelling rejected by the parser: C06's business
            if canon_res.iter().all(|r| r.is_err()) && imp::parse_ok(&canon) == Some(false) {
                acc.bump("skipped_rejected_by_parser", 1);
                return acc;
            }
            acc.bump("abstract_queries", 1);
            let sites = sp.sites();
            acc.max("max_choice_sites", sites.len() as u64);
            for &s in &sites {
                for a in 1..sp.alts(s) {
                    check_variant(&run, &mut acc, &sp, &[(s, a)], &canon, &canon_res, &docs);
                }
            }
            if n % pair_every == 0 {
                for (i, &s1) in sites.iter().enumerate() {
                    for &s2 in &sites[i + 1..] {
                        for a1 in 1..sp.alts(s1) {
                            for a2 in 1..sp.alts(s2) {
                                check_variant(&run, &mut acc, &sp, &[(s1, a1), (s2, a2)], &canon, &canon_res, &docs);
                            }
                        }
                    }
                }
                acc.bump("queries_with_all_pairs_of_deviations", 1);
            }
            if triple_every != usize::MAX && n % triple_every == 0 && sites.len() <= 14 {
                for i in 0..sites.len() {
                    for j in i + 1..sites.len() {
                        for k in j + 1..sites.len() {
                            for a1 in 1..sp.alts(sites[i]) {
                                for a2 in 1..sp.alts(sites[j]) {
                                    for a3 in 1..sp.alts(sites[k]) {
                                        check_variant(&run, &mut acc, &sp, &[(sites[i], a1), (sites[j], a2), (sites[k], a3)], &canon, &canon_res, &docs);
                                    }
                                }
                            }
                        }
                    }
                }
                acc.bump("queries_with_all_triples_of_deviations", 1);
            }
            // every site deviating at once (first alternative), and every blank site with two blanks
            let all: Vec<(usize, usize)> = sites.iter().map(|s| (*s, 1)).collect();
            check_variant(&run, &mut acc, &sp, &all, &canon, &canon_res, &docs);
            let all_last: Vec<(usize, usize)> = sites.iter().map(|s| (*s, sp.alts(*s) - 1)).collect();
            check_variant(&run, &mut acc, &sp, &all_last, &canon, &canon_res, &docs);
            acc
        })
        .reduce(Acc::new, Acc::merge);
    let mut acc = acc;
    number_family(&mut acc);
    number_magnitudes(&mut acc);
    significant_blanks(&mut acc);
    negated_function_spellings(&mut acc);
    spellings_after_rejections(&mut acc);
    if acc.extra.get("MACHINERY_invalid_spelling").copied().unwrap_or(0) > 0 {
        eprintln!("MACHINERY: the spelling generator produced strings the RFC recogniser rejects:");
        for o in acc.outcomes.iter().take(5) {
            eprintln!("  {}", o);
        }
        return 2;
    }
    run.finish(
        acc,
        "one case = one concrete spelling of an abstract query with up to k simultaneous deviations from the canonical rendering (a deviation = one alternative at one site: name as .n / ['n'] / [\"n\"], .* / [*], ?e / ?(e) / ?((e)), redundant parentheses around an atom, number and string-literal spellings, a blank of each kind at one S site); all single deviations for every query, all pairs (thorough: triples) for every n-th query; oracle: same parse outcome and the same node sequence (by address) as the canonical spelling on every panel document; non-trivial = variants that differ textually from the canonical spelling and agree",
        &["equivalences are those RFC 9535 defines; names and string literals in the query set need no escaping (escapes are C01/C04 findings)"],
        true,
        json!({"panel_documents": docs.len(), "abstract_query_set": sents.len()}),
    )
}

pub fn replay(case: &Value, _run: &Run) -> Acc {
    let mut acc = Acc::new();
    let doc = &case["doc"];
    let am = AddrMap::new(doc);
    let a = case["canonical"].as_str().unwrap_or("$");
    let b = case["variant"].as_str().unwrap_or("$");
    let ra = ids_only(&imp::run_with_path(a, doc, &am));
    let rb = ids_only(&imp::run_with_path(b, doc, &am));
    println!("document  : {}", doc);
    println!("canonical : {:?} -> {:?}", a, ra);
    println!("variant   : {:?} -> {:?}", b, rb);
    if ra != rb {
        acc.viol(format!("{:?} and {:?} are equivalent spellings but give {:?} and {:?} on {}", a, b, ra, rb, doc), case.clone());
    }
    acc
}
