//! C11: index and slice arithmetic over the full parameter cube x array lengths, in four contexts,
//! through the parser and through programmatically built queries.

use super::common::{check_case, check_obs, DocCtx, Mode, Outcome};
use crate::acc::{Acc, Run};
use crate::imp;
use crate::model::ast::*;
use crate::model::render;
use jsonpath_rust::parser::model::{JpQuery, Segment, Selector};
use rayon::prelude::*;
use serde_json::{json, Value};
use std::time::Duration;

fn arr(len: usize) -> Value {
    Value::Array((0..len).map(|i| json!(i)).collect())
}

fn values(r: i64) -> Vec<Option<i64>> {
    let mut v = vec![None];
    for i in -r..=r {
        v.push(Some(i));
    }
    for x in [MAX_INT, MAX_INT - 1, MIN_INT, MIN_INT + 1] {
        v.push(Some(x));
    }
    v
}

fn one(run: &Run, acc: &mut Acc, sel: &Sel, ctxs: &[(Vec<Seg>, &DocCtx, &str)], isel: Option<Selector>) {
    for (prefix, dc, class) in ctxs {
        let mut segs = prefix.clone();
        let last_desc = class.starts_with("descendant");
        // a name no document has: the union selects what the selector alone selects, whatever the order of evaluation
        let zz = Sel::Name { val: "zz".into(), raw: "'zz'".into() };
        let sels = if class.contains("union, selector first") {
            vec![sel.clone(), zz]
        } else if class.contains("union, selector last") {
            vec![zz, sel.clone()]
        } else if class.contains("union, selector twice") {
            vec![sel.clone(), sel.clone()]
        } else {
            vec![sel.clone()]
        };
        segs.push(if last_desc { Seg::desc(sels) } else { Seg::child(sels) });
        let ast = Query::root(segs);
        let q = render::query(&ast);
        let o = crate::watch::guarded(|| json!({"query": q, "doc": dc.doc}).to_string(), || check_case(run, acc, &q, &ast, dc, Mode::NodesAndPaths, class));
        if let Outcome::Agree(n) = o {
            if n > 0 {
                acc.nontrivial += 1;
            }
            if n > 1 {
                acc.sample(|| json!({"query": q, "doc": dc.doc, "selected": n}));
            }
        }
    }
    // programmatically built query on the root context
    if let Some(isel) = isel {
        let (_, dc, _) = &ctxs[0];
        let jq = JpQuery::new(vec![Segment::Selector(isel)]);
        let ast = Query::root(vec![Seg::child(vec![sel.clone()])]);
        let q = render::query(&ast);
        let out = crate::watch::guarded(|| json!({"query": q, "doc": dc.doc, "built": true}).to_string(), || imp::run_parsed(&jq, dc.doc, &dc.am));
        check_obs(run, acc, &q, &ast, dc, &out, Mode::NodesAndPaths, "programmatic");
        acc.bump("programmatic_queries", 1);
    }
}

pub fn run(tier: &str) -> i32 {
    let run = Run::new("C11", tier);
    let (r, maxlen) = if run.thorough() { (24, 16) } else { (10, 8) };
    let vals = values(r);
    // documents
    let arrays: Vec<Value> = (0..=maxlen).map(arr).collect();
    let named: Vec<Value> = arrays.iter().map(|a| json!({ "a": a })).collect();
    let all = Value::Array(arrays.clone());
    let nested = json!({"x": [all.clone()], "y": {"z": arr(3)}});
    let others = vec![json!({"0": 1, "1": 2}), json!("abc"), json!(7), json!(null), json!({})];
    {
        let rdir = run.verif_dir.clone();
        crate::watch::start(Duration::from_secs(20), move |case| {
            let path = format!("{}/replays/C11-timeout.json", rdir);
            let _ = std::fs::create_dir_all(format!("{}/replays", rdir));
            let c: Value = serde_json::from_str(case).unwrap_or(json!({"text": case}));
            let _ = std::fs::write(&path, json!({"kind": "timeout", "property": "C11", "case": c}).to_string());
            println!("VIOLATION property=C11 replay={}", path);
            println!("  no result within the 20 s horizon: {}", case);
        });
    }
    // arrays of every length with non-arrays before, between and after them
    let mut mixed_items: Vec<Value> = vec![json!({"0": 1})];
    for (k, a) in arrays.iter().enumerate() {
        mixed_items.push(a.clone());
        mixed_items.push([json!("s"), json!(7), json!(null), json!({"a": 1})][k % 4].clone());
    }
    let mixed = Value::Array(mixed_items);
    let mixed_nested = json!({"o": {"k": 1}, "m": mixed.clone(), "n": [arr(2), "x", [arr(3)]]});
    let mixed_dc = DocCtx::new(&mixed);
    let mixed_nested_dc = DocCtx::new(&mixed_nested);
    let all_dc = DocCtx::new(&all);
    let nested_dc = DocCtx::new(&nested);
    let arr_dcs: Vec<DocCtx> = arrays.iter().map(DocCtx::new).collect();
    let named_dcs: Vec<DocCtx> = named.iter().map(DocCtx::new).collect();
    let other_dcs: Vec<DocCtx> = others.iter().map(DocCtx::new).collect();

    // slices
    let mut cube = vec![];
    for a in &vals {
        for b in &vals {
            for c in &vals {
                cube.push((*a, *b, *c));
            }
        }
    }
    let acc = cube
        .par_iter()
        .map(|(a, b, c)| {
            let mut acc = Acc::new();
            let sel = Sel::Slice(*a, *b, *c);
            for k in 0..arr_dcs.len() {
                let ctxs: Vec<(Vec<Seg>, &DocCtx, &str)> = vec![
                    (vec![], &arr_dcs[k], "root"),
                    (vec![Seg::child(vec![Sel::Name { val: "a".into(), raw: "a".into() }])], &named_dcs[k], "below name"),
                    (vec![], &arr_dcs[k], "root, union, selector twice"),
                    (vec![Seg::child(vec![Sel::Name { val: "a".into(), raw: "a".into() }])], &named_dcs[k], "below name, union, selector twice"),
                ];
                one(&run, &mut acc, &sel, &ctxs, Some(Selector::Slice(*a, *b, *c)));
            }
            let ctxs: Vec<(Vec<Seg>, &DocCtx, &str)> = vec![
                (vec![Seg::child(vec![Sel::Wild])], &all_dc, "below wildcard"),
                (vec![], &nested_dc, "descendant"),
                (vec![Seg::child(vec![Sel::Wild])], &mixed_dc, "below wildcard (arrays among non-arrays)"),
                (vec![Seg::child(vec![Sel::Wild])], &mixed_dc, "below wildcard (arrays among non-arrays), union, selector first"),
                (vec![Seg::child(vec![Sel::Wild])], &mixed_dc, "below wildcard (arrays among non-arrays), union, selector last"),
                (vec![Seg::child(vec![Sel::Wild])], &all_dc, "below wildcard, union, selector first"),
                (vec![], &mixed_nested_dc, "descendant (arrays among non-arrays)"),
                (vec![], &mixed_nested_dc, "descendant (arrays among non-arrays), union, selector first"),
                (vec![], &mixed_nested_dc, "descendant (arrays among non-arrays), union, selector last"),
            ];
            one(&run, &mut acc, &sel, &ctxs, None);
            for dc in &other_dcs {
                let ctxs: Vec<(Vec<Seg>, &DocCtx, &str)> = vec![(vec![], dc, "non-array")];
                one(&run, &mut acc, &sel, &ctxs, None);
            }
            acc.bump("slice_parameter_triples", 1);
            acc
        })
        .reduce(Acc::new, Acc::merge);
    // longer arrays (around powers of two and beyond) with a reduced cube whose bounds are relative to the length
    let long_lens: Vec<usize> = if run.thorough() { vec![31, 32, 33, 63, 64, 65, 100, 255, 256, 257, 1000] } else { vec![31, 32, 33, 64, 65, 100] };
    let long_dcs: Vec<(usize, Value)> = long_lens.iter().map(|n| (*n, arr(*n))).collect();
    let acc_long = long_dcs
        .par_iter()
        .map(|(n, doc)| {
            let mut acc = Acc::new();
            let dc = DocCtx::new(doc);
            let n = *n as i64;
            let bounds: Vec<Option<i64>> = vec![None, Some(0), Some(1), Some(-1), Some(n - 1), Some(n), Some(n + 1), Some(-n), Some(-n - 1), Some(-n + 1), Some(n / 2), Some(-n / 2)];
            let steps: Vec<Option<i64>> = vec![None, Some(1), Some(-1), Some(2), Some(-2), Some(3), Some(-7), Some(n), Some(-n), Some(n - 1), Some(0)];
            for a in &bounds {
                for b in &bounds {
                    for c in &steps {
                        let sel = Sel::Slice(*a, *b, *c);
                        let ctxs: Vec<(Vec<Seg>, &DocCtx, &str)> = vec![(vec![], &dc, "root (long array)")];
                        one(&run, &mut acc, &sel, &ctxs, None);
                    }
                }
                if let Some(i) = a {
                    let ctxs: Vec<(Vec<Seg>, &DocCtx, &str)> = vec![(vec![], &dc, "root (long array)")];
                    one(&run, &mut acc, &Sel::Index(*i), &ctxs, Some(Selector::Index(*i)));
                }
            }
            acc
        })
        .reduce(Acc::new, Acc::merge);
    // two slices in one bracketed selection: every pair over a small bound range (steps absent / 1 / -1), on every
    // array length - each slice contributes its own index sequence, whatever its neighbour looks like
    let pair_bounds: Vec<Option<i64>> = vec![None, Some(-3), Some(-2), Some(-1), Some(0), Some(1), Some(2), Some(3), Some(4)];
    let mut pairs: Vec<(Sel, Sel)> = vec![];
    for a in &pair_bounds {
        for m in &pair_bounds {
            for m2 in &pair_bounds {
                for b in &pair_bounds {
                    // all adjacent pairs (first ends where the second starts), and a stride of the others
                    let adjacent = m == m2;
                    if !adjacent && (a.unwrap_or(9) + m.unwrap_or(9) * 3 + m2.unwrap_or(9) * 5 + b.unwrap_or(9) * 7).rem_euclid(5) != 0 {
                        continue;
                    }
                    for (s1, s2) in [(None, None), (Some(1), None), (None, Some(1)), (Some(-1), None), (Some(2), Some(1))] {
                        if !adjacent && (s1, s2) != (None, None) {
                            continue;
                        }
                        pairs.push((Sel::Slice(*a, *m, s1), Sel::Slice(*m2, *b, s2)));
                    }
                }
            }
        }
    }
    let acc_pairs = pairs
        .par_iter()
        .map(|(s1, s2)| {
            let mut acc = Acc::new();
            for dc in arr_dcs.iter().take(7) {
                for segs in [vec![Seg::child(vec![s1.clone(), s2.clone()])], vec![Seg::desc(vec![s1.clone(), s2.clone()])]] {
                    let ast = Query::root(segs);
                    let q = render::query(&ast);
                    if let Outcome::Agree(n) = check_case(&run, &mut acc, &q, &ast, dc, Mode::NodesAndPaths, "two slices in one union") {
                        if n > 0 {
                            acc.nontrivial += 1;
                        }
                    }
                }
            }
            acc
        })
        .reduce(Acc::new, Acc::merge);
    // indices
    let mut idx: Vec<i64> = (-(maxlen as i64) - 3..=maxlen as i64 + 3).collect();
    idx.extend([MAX_INT, MAX_INT - 1, MIN_INT, MIN_INT + 1]);
    let acc2 = idx
        .par_iter()
        .map(|i| {
            let mut acc = Acc::new();
            let sel = Sel::Index(*i);
            for k in 0..arr_dcs.len() {
                let ctxs: Vec<(Vec<Seg>, &DocCtx, &str)> =
                    vec![(vec![], &arr_dcs[k], "root"), (vec![Seg::child(vec![Sel::Name { val: "a".into(), raw: "a".into() }])], &named_dcs[k], "below name")];
                one(&run, &mut acc, &sel, &ctxs, Some(Selector::Index(*i)));
            }
            let ctxs: Vec<(Vec<Seg>, &DocCtx, &str)> = vec![
                (vec![Seg::child(vec![Sel::Wild])], &all_dc, "below wildcard"),
                (vec![], &nested_dc, "descendant"),
                (vec![Seg::child(vec![Sel::Wild])], &mixed_dc, "below wildcard (arrays among non-arrays)"),
                (vec![Seg::child(vec![Sel::Wild])], &mixed_dc, "below wildcard (arrays among non-arrays), union, selector first"),
                (vec![Seg::child(vec![Sel::Wild])], &mixed_dc, "below wildcard (arrays among non-arrays), union, selector last"),
                (vec![Seg::child(vec![Sel::Wild])], &all_dc, "below wildcard, union, selector first"),
                (vec![], &mixed_nested_dc, "descendant (arrays among non-arrays)"),
                (vec![], &mixed_nested_dc, "descendant (arrays among non-arrays), union, selector first"),
                (vec![], &mixed_nested_dc, "descendant (arrays among non-arrays), union, selector last"),
            ];
            one(&run, &mut acc, &sel, &ctxs, None);
            for dc in &other_dcs {
                let ctxs: Vec<(Vec<Seg>, &DocCtx, &str)> = vec![(vec![], dc, "non-array")];
                one(&run, &mut acc, &sel, &ctxs, None);
            }
            acc.bump("index_values", 1);
            acc
        })
        .reduce(Acc::new, Acc::merge);
    // slices applied directly to the current node of a filter, consumed by count() and by a following segment:
    // on [[[0],[1],...]] the queries `$[?count(@[s:e:st])==k]` give the size and `$[?count(@[s:e:st][?@==j])==1]`
    // the membership of element j of the selection for every array length at once
    let nested_all: Value = Value::Array((0..=maxlen).map(|n| Value::Array((0..n).map(|i| json!([i])).collect())).collect());
    let nested_all_dc = DocCtx::new(&nested_all);
    let non_arrays = json!([{"a": 1, "b": 2}, {"0": 0}, "abc", "", 5, null, true, {}, {"a": [0, 1]}]);
    let non_arrays_dc = DocCtx::new(&non_arrays);
    let stride = if run.thorough() { 1 } else { 3 };
    let acc4 = cube
        .par_iter()
        .enumerate()
        .filter(|(n, _)| n % stride == 0)
        .map(|(_, (a, b, c))| {
            let mut acc = Acc::new();
            let f = |x: &Option<i64>| x.map(|v| v.to_string()).unwrap_or_default();
            let sl = match c {
                Some(_) => format!("{}:{}:{}", f(a), f(b), f(c)),
                None => format!("{}:{}", f(a), f(b)),
            };
            let mut qs = vec![format!("$[?@[{}]]", sl), format!("$[?@[{},{}]]", sl, sl), format!("$[?count(@[{},{}])==0]", sl, sl), format!("$[?@[{}][0]]", sl), format!("$[?value(@[{}])==@[0]]", sl), format!("$[?@[{}][?@==0]]", sl)];
            for k in 0..=3 {
                qs.push(format!("$[?count(@[{}])=={}]", sl, k));
                qs.push(format!("$[?count(@[{}][?@=={}])==1]", sl, k));
            }
            for q in qs {
                let ast = crate::model::parse::rfc_parse(&q).unwrap_or_else(|e| panic!("C11 query {} must be valid: {:?}", q, e)).0;
                // the same on current nodes that are not arrays: a slice selects nothing from them
                check_case(&run, &mut acc, &q, &ast, &non_arrays_dc, Mode::Nodes, "slice on a current node that is not an array");
                let o = crate::watch::guarded(|| json!({"query": q, "doc": nested_all}).to_string(), || check_case(&run, &mut acc, &q, &ast, &nested_all_dc, Mode::Nodes, "slice on the current node of a filter"));
                if let Outcome::Agree(n) = o {
                    if n > 0 {
                        acc.nontrivial += 1;
                    }
                }
            }
            acc
        })
        .reduce(Acc::new, Acc::merge);
    // index segments of singular queries (comparison operands): `$[?@[i]==j]`, `$[?$[k][i]==j]`, `$[?@[i]==@[i]]`
    let acc3 = idx
        .par_iter()
        .map(|i| {
            let mut acc = Acc::new();
            if i.abs() > MAX_INT {
                return acc;
            }
            // one document holding every array length: [[], [0], [0,1], ...]
            let doc = &all;
            let dc = &all_dc;
            let mut qs = vec![format!("$[?@[{}]==@[{}]]", i, i), format!("$[?@[{}]!=@[0]]", i), format!("$[?@[{}]>=0]", i), format!("$[?length(@)>0&&@[{}]==@[-1]]", i)];
            for j in 0..=maxlen {
                qs.push(format!("$[?@[{}]=={}]", i, j));
                qs.push(format!("$[?{}==@[{}]]", j, i));
            }
            for k in 0..=maxlen.min(4) {
                qs.push(format!("$[?$[{}][{}]==@[0]]", k, i));
            }
            for q in qs {
                let ast = crate::model::parse::rfc_parse(&q).unwrap_or_else(|e| panic!("C11 query {} must be valid: {:?}", q, e)).0;
                let o = crate::watch::guarded(|| json!({"query": q, "doc": doc}).to_string(), || check_case(&run, &mut acc, &q, &ast, dc, Mode::NodesAndPaths, "singular-query index"));
                if let Outcome::Agree(n) = o {
                    if n > 0 {
                        acc.nontrivial += 1;
                    }
                }
            }
            acc
        })
        .reduce(Acc::new, Acc::merge);
    let acc = acc.merge(acc2).merge(acc3).merge(acc4).merge(acc_long).merge(acc_pairs);
    run.finish(
        acc,
        "one case = one (slice or index selector, array length, context) evaluated through query_with_path (and, at the root, through a programmatically built JpQuery); expected index sequence = RFC 9535 2.3.4.2.2 pseudo-code transcribed with 128-bit arithmetic; compared on node identity, order and path; non-trivial = at least one element is selected",
        &[
            "slice/index parameters: absent, every integer in the stated range, and the four I-JSON extremes +-(2^53-1), +-(2^53-2)",
            "termination: any single case exceeding a 20 s horizon is reported as a violation",
        ],
        true,
        json!({"parameter_range": r, "max_array_length": maxlen, "long_arrays": "lengths 31..100 (thorough ..1000) x bounds {absent, 0, +-1, +-len, +-(len+-1), +-len/2} x 11 steps", "contexts": ["root", "below name", "below wildcard", "descendant", "non-array", "below wildcard / descendant over nodelists that mix arrays with non-arrays, alone and inside a union with a name selector (either order)", "index segment of a singular query in a comparison", "slice on the current node of a filter (count / following segment)"]}),
    )
}
