//! C01 (selected nodes), C02 (order), C03 (normalized paths): edge relations over the nodelist
//! transition system of `explore::bfs`.

use crate::acc::{Acc, Run};
use crate::explore::bfs::{bfs, BfsParams, Edge};
use crate::findings::candidate_masks;
use crate::gen::alpha::{alphabet, AlphaSize};
use crate::gen::docs;
use crate::imp::{self, AddrMap, ImplOut, FABRICATED};
use crate::model::eval::{EDev, Loc, Node, Step};
use crate::model::normpath::normpath;
use rayon::prelude::*;
use serde_json::{json, Value};
use std::collections::HashMap;

pub struct LocIndex {
    pub ids: HashMap<Loc, u32>,
}

impl LocIndex {
    pub fn new(am: &AddrMap) -> LocIndex {
        LocIndex { ids: am.locs.iter().enumerate().map(|(i, l)| (l.clone(), i as u32)).collect() }
    }
}

fn ids_of(nodes: &[Node], am: &AddrMap, cache: &mut Option<LocIndex>) -> Vec<u32> {
    let idx = cache.get_or_insert_with(|| LocIndex::new(am));
    nodes.iter().map(|n| *idx.ids.get(&n.loc).expect("model node is a document node")).collect()
}

fn obs_ok<'a>(e: &'a Edge, acc: &mut Acc, prop: &str) -> Option<&'a Vec<(u32, String)>> {
    match e.out {
        ImplOut::Ok(v) => {
            if v.iter().any(|(id, _)| *id == FABRICATED) {
                if prop == "C01" {
                    acc.viol(
                        format!("{} on {} returns a value that is not a node of the caller's document (copy or fabricated value)", e.query_string(), e.doc),
                        e.case(),
                    );
                }
                return None;
            }
            Some(v)
        }
        other => {
            if prop == "C01" {
                acc.viol(format!("evaluating the parsed query {} on {} did not succeed: {}", e.query_string(), e.doc, other.short()), e.case());
            }
            None
        }
    }
}

fn fmt_ids(ids: &[u32], am: &AddrMap) -> String {
    let v: Vec<String> = ids.iter().map(|i| normpath(am.loc(*i))).collect();
    format!("[{}]", v.join(", "))
}

/// attribute a disagreement to the licensed deviation switches, or report it
fn attribute<K: PartialEq>(
    e: &Edge,
    run: &Run,
    acc: &mut Acc,
    observed: &K,
    model_key: &mut dyn FnMut(EDev) -> Option<K>,
    describe: &dyn Fn() -> String,
) {
    let allowed = run.findings.edev_mask(&run.prop);
    for mask in candidate_masks(allowed) {
        if let Some(k) = model_key(EDev::from_mask(mask)) {
            if &k == observed {
                for id in run.findings.ids_for_mask(&run.prop, mask) {
                    acc.known(&id, || format!("{} on {}", e.query_string(), e.doc));
                }
                return;
            }
        }
    }
    acc.viol(describe(), e.case());
}

pub fn check_c01(e: &Edge, run: &Run, acc: &mut Acc) {
    let obs = match obs_ok(e, acc, "C01") {
        Some(v) => v,
        None => return,
    };
    if let Ok(t) = e.out_tag {
        if *t == imp::Tag::Value {
            acc.viol(format!("{} on {} leaves a computed value instead of a nodelist", e.query_string(), e.doc), e.case());
            return;
        }
    }
    let mut cache = None;
    let strict = match e.model_succ(EDev::default()) {
        Ok(n) => n,
        Err(_) => {
            acc.bump("skipped_outside_model", 1);
            return;
        }
    };
    let mut exp = ids_of(&strict, e.am, &mut cache);
    exp.sort();
    let mut got: Vec<u32> = obs.iter().map(|x| x.0).collect();
    got.sort();
    if !exp.is_empty() {
        acc.nontrivial += 1;
    }
    if exp == got {
        acc.sample(|| json!({"doc": e.doc, "query": e.query_string(), "selected": fmt_ids(&got, e.am)}));
        return;
    }
    let am = e.am;
    let mut mk = |dev: EDev| -> Option<Vec<u32>> {
        let n = e.model_succ(dev).ok()?;
        let mut v = ids_of(&n, am, &mut cache);
        v.sort();
        Some(v)
    };
    let d = || {
        format!(
            "{} on {}: input nodelist {} ; segment {} must select (as a multiset) {} but the implementation returned {}",
            e.query_string(),
            e.doc,
            fmt_ids(&e.input.nodes.iter().map(|x| x.0).collect::<Vec<_>>(), am),
            e.action_string(),
            fmt_ids(&exp, am),
            fmt_ids(&got, am)
        )
    };
    attribute(e, run, acc, &got, &mut mk, &d);
}

fn parent(l: &Loc) -> Loc {
    l[..l.len().saturating_sub(1)].to_vec()
}

/// x <_P y : x must be visited before y by every order RFC 9535 section 2.5.2.2 allows
fn must_precede(x: &Loc, y: &Loc) -> bool {
    if x.len() < y.len() && y[..x.len()] == x[..] {
        return true;
    }
    if !x.is_empty() && y.len() >= x.len() && y[..x.len() - 1] == x[..x.len() - 1] {
        if let (Step::Index(i), Step::Index(j)) = (&x[x.len() - 1], &y[x.len() - 1]) {
            return i < j;
        }
    }
    false
}

/// strict C02 relation for one edge; Err(text) explains the first discrepancy
fn order_ok(e: &Edge, got: &[u32], cache: &mut Option<LocIndex>) -> Result<Result<(), String>, ()> {
    let ctx = crate::model::eval::Ctx { root: e.doc, dev: EDev::default() };
    let input = e.model_input();
    let mut pos = 0usize;
    for n in &input {
        if !e.action.desc {
            let exp = ctx.apply_seg(e.action, std::slice::from_ref(n)).map_err(|_| ())?;
            let exp = ids_of(&exp, e.am, cache);
            if got.len() < pos + exp.len() || got[pos..pos + exp.len()] != exp[..] {
                return Ok(Err(format!(
                    "results for input node {} must be {} at positions {}.. (input-node-major, selectors in written order)",
                    normpath(&n.loc),
                    fmt_ids(&exp, e.am),
                    pos
                )));
            }
            pos += exp.len();
        } else {
            // per visited node d: R(d) = selectors applied to d, in selector order
            let mut ds = vec![];
            crate::model::eval::descendants_or_self(n, &mut ds);
            let mut per: HashMap<Loc, Vec<u32>> = HashMap::new();
            let mut total = 0;
            for d in &ds {
                let mut out = vec![];
                for s in &e.action.sels {
                    ctx.apply_sel(s, d, &mut out).map_err(|_| ())?;
                }
                if !out.is_empty() {
                    total += out.len();
                    per.insert(d.loc.clone(), ids_of(&out, e.am, cache));
                }
            }
            if got.len() < pos + total {
                return Ok(Err(format!("too few results for input node {}", normpath(&n.loc))));
            }
            let block = &got[pos..pos + total];
            let mut parents: Vec<Loc> = vec![];
            let mut k = 0;
            while k < block.len() {
                let p = parent(e.am.loc(block[k]));
                let r = match per.remove(&p) {
                    Some(r) => r,
                    None => {
                        return Ok(Err(format!(
                            "within the results of input node {}, the children of {} are not contiguous (or not expected) at position {}",
                            normpath(&n.loc),
                            normpath(&p),
                            pos + k
                        )))
                    }
                };
                if block.len() < k + r.len() || block[k..k + r.len()] != r[..] {
                    return Ok(Err(format!(
                        "results selected from visited node {} must be {} in this order",
                        normpath(&p),
                        fmt_ids(&r, e.am)
                    )));
                }
                k += r.len();
                parents.push(p);
            }
            for i in 0..parents.len() {
                for j in i + 1..parents.len() {
                    if must_precede(&parents[j], &parents[i]) {
                        return Ok(Err(format!(
                            "descendant visiting order: {} must be visited before {}",
                            normpath(&parents[j]),
                            normpath(&parents[i])
                        )));
                    }
                }
            }
            // the property fixes what RFC 9535 leaves open: object members are visited in the document's own member
            // order, i.e. the visited nodes appear in document pre-order (node ids are pre-order numbers)
            let idx = cache.get_or_insert_with(|| LocIndex::new(e.am));
            let pid: Vec<u32> = parents.iter().map(|p| *idx.ids.get(p).expect("visited node is a document node")).collect();
            for w in 0..pid.len().saturating_sub(1) {
                if pid[w] >= pid[w + 1] {
                    return Ok(Err(format!(
                        "descendant visiting order: {} comes before {} in the document's member order and must be visited first",
                        normpath(&parents[w + 1]),
                        normpath(&parents[w])
                    )));
                }
            }
            pos += total;
        }
    }
    if pos != got.len() {
        return Ok(Err(format!("{} results beyond the expected {}", got.len() - pos, pos)));
    }
    Ok(Ok(()))
}

pub fn check_c02(e: &Edge, run: &Run, acc: &mut Acc) {
    let obs = match obs_ok(e, acc, "C02") {
        Some(v) => v,
        None => return,
    };
    let got: Vec<u32> = obs.iter().map(|x| x.0).collect();
    let mut cache = None;
    let verdict = match order_ok(e, &got, &mut cache) {
        Ok(v) => v,
        Err(()) => {
            acc.bump("skipped_outside_model", 1);
            return;
        }
    };
    // non-trivial: the order is actually constrained (two or more results)
    if got.len() >= 2 {
        acc.nontrivial += 1;
        if e.input.nodes.len() >= 2 && e.action.sels.len() >= 2 {
            acc.bump("multi_input_multi_selector_edges", 1);
        }
    }
    match verdict {
        Ok(()) => {
            if got.len() >= 3 {
                acc.sample(|| json!({"doc": e.doc, "query": e.query_string(), "order": fmt_ids(&got, e.am)}));
            }
        }
        Err(why) => {
            let am = e.am;
            let mut mk = |dev: EDev| -> Option<Vec<u32>> {
                let n = e.model_succ(dev).ok()?;
                Some(ids_of(&n, am, &mut cache))
            };
            let d = || {
                format!(
                    "{} on {}: input nodelist {} ; segment {} returned {} : {}",
                    e.query_string(),
                    e.doc,
                    fmt_ids(&e.input.nodes.iter().map(|x| x.0).collect::<Vec<_>>(), am),
                    e.action_string(),
                    fmt_ids(&got, am),
                    why
                )
            };
            attribute(e, run, acc, &got, &mut mk, &d);
        }
    }
}

const REQ_RING: usize = 24;
thread_local! {
    /// the path strings this worker thread re-ran as queries most recently (a round-trip failure that depends on
    /// earlier string queries on the same thread is only reproducible together with them)
    static REQUERIED: std::cell::RefCell<(Vec<String>, usize)> = std::cell::RefCell::new((Vec::new(), 0));
}

fn remember_requery(p: &str) {
    REQUERIED.with(|r| {
        let mut r = r.borrow_mut();
        let i = r.1 % REQ_RING;
        if r.0.len() < REQ_RING {
            r.0.push(p.to_string());
        } else {
            r.0[i].clear();
            r.0[i].push_str(p);
        }
        r.1 += 1;
    })
}

fn requery_history() -> Vec<String> {
    REQUERIED.with(|r| {
        let r = r.borrow();
        let n = r.0.len();
        (0..n).map(|k| r.0[if n < REQ_RING { k } else { (r.1 + k) % REQ_RING }].clone()).collect()
    })
}

pub fn check_c03(e: &Edge, run: &Run, acc: &mut Acc) {
    let obs = match obs_ok(e, acc, "C03") {
        Some(v) => v,
        None => return,
    };
    if obs.is_empty() {
        return;
    }
    acc.nontrivial += 1;
    let am = e.am;
    // (a) every path is the normalized path of its node, (b) equal paths <=> equal nodes
    let mut bad: Option<String> = None;
    for (id, p) in obs {
        let np = normpath(am.loc(*id));
        if *p != np {
            bad = Some(format!("node {} is reported with path {:?}", np, p));
            break;
        }
    }
    if bad.is_none() {
        let mut by_path: HashMap<&str, u32> = HashMap::new();
        for (id, p) in obs {
            if let Some(prev) = by_path.insert(p.as_str(), *id) {
                if prev != *id {
                    bad = Some(format!("two different nodes share the path {:?}", p));
                }
            }
        }
    }
    // (c) round trip: the reported path, run as a query, returns exactly that node with that path
    let mut bad_rt: Option<(String, String)> = None;
    if bad.is_none() {
        let mut seen = std::collections::HashSet::new();
        for (id, p) in obs {
            if !seen.insert(*id) {
                continue;
            }
            acc.evals += 1;
            remember_requery(p);
            let r = imp::run_with_path(p, e.doc, am);
            if r != ImplOut::Ok(vec![(*id, p.clone())]) {
                bad_rt = Some((p.clone(), format!("running the reported path {:?} as a query returns {:?} instead of exactly that node", p, r)));
                break;
            }
        }
    }
    if bad.is_none() && bad_rt.is_none() {
        acc.sample(|| json!({"doc": e.doc, "query": e.query_string(), "paths": obs.iter().map(|x| x.1.clone()).collect::<Vec<_>>()}));
        return;
    }
    if let Some(why) = bad {
        // legacy rendering is route-dependent: reproduce the whole (node, path) sequence
        let mut cache = None;
        let mut mk = |dev: EDev| -> Option<Vec<(u32, String)>> {
            if !dev.legacy_path {
                return None;
            }
            let n = e.model_succ(dev).ok()?;
            let ids = ids_of(&n, am, &mut cache);
            Some(ids.into_iter().zip(n.into_iter().map(|x| x.lpath)).collect())
        };
        let d = || format!("{} on {}: {}", e.query_string(), e.doc, why);
        attribute(e, run, acc, obs, &mut mk, &d);
        return;
    }
    if let Some((p, why)) = bad_rt {
        // the path is normalized; the failure is in evaluating it. Licensed only if the name-lookup finding
        // reproduces the result of evaluating that path.
        let observed = imp::run_with_path(&p, e.doc, am);
        let parsed = crate::model::parse::rfc_parse(&p).ok().map(|x| x.0);
        let allowed = run.findings.edev_mask(&run.prop);
        if let (Some(q), ImplOut::Ok(o)) = (parsed, &observed) {
            let mut cache = None;
            for mask in candidate_masks(allowed) {
                let dev = EDev::from_mask(mask);
                let ctx = crate::model::eval::Ctx { root: e.doc, dev };
                if let Ok(n) = ctx.eval_query(&q) {
                    let ids = ids_of(&n, am, &mut cache);
                    let got: Vec<u32> = o.iter().map(|x| x.0).collect();
                    if ids == got && (dev.legacy_name_lookup || dev.legacy_path) {
                        for id in run.findings.ids_for_mask(&run.prop, mask) {
                            acc.known(&id, || format!("{} on {} (round trip of {})", e.query_string(), e.doc, p));
                        }
                        return;
                    }
                }
            }
        }
        let mut case = e.case();
        case["requery_history"] = json!(requery_history());
        acc.viol(format!("{} on {}: {}", e.query_string(), e.doc, why), case);
    }
}

pub struct Plan {
    pub docs: Vec<Value>,
    pub alpha: AlphaSize,
    pub max_names: usize,
    pub params: BfsParams,
    pub label: &'static str,
}

fn leaves2() -> Vec<Value> {
    vec![json!(1), json!("a")]
}
fn leaves3() -> Vec<Value> {
    vec![json!(1), json!("a"), json!(null)]
}

pub fn plans(prop: &str, thorough: bool) -> Vec<Plan> {
    let mut v = vec![];
    if !thorough {
        v.push(Plan {
            docs: docs::universe(2, 2, &leaves2(), &["b", "a"]),
            alpha: AlphaSize::Singles,
            max_names: 3,
            params: BfsParams { lmax: 8, max_depth: 2, max_states: 400 },
            label: "U2(leaves 1,'a') x single-selector segments, depth 2",
        });
        v.push(Plan {
            docs: docs::panel(),
            alpha: AlphaSize::Unions,
            max_names: 4,
            params: BfsParams { lmax: 12, max_depth: 2, max_states: 3000 },
            label: "panel P x unions, depth 2",
        });
    } else {
        v.push(Plan {
            docs: docs::universe(2, 2, &leaves3(), &["b", "a"]),
            alpha: AlphaSize::Singles,
            max_names: 3,
            params: BfsParams { lmax: 10, max_depth: 3, max_states: 1500 },
            label: "U2(leaves 1,'a',null) x single-selector segments, depth 3",
        });
        v.push(Plan {
            docs: docs::universe(2, 2, &leaves2(), &["b", "a"]),
            alpha: AlphaSize::Unions,
            max_names: 3,
            params: BfsParams { lmax: 10, max_depth: 2, max_states: 1500 },
            label: "U2(leaves 1,'a') x unions, depth 2",
        });
        v.push(Plan {
            docs: docs::panel(),
            alpha: AlphaSize::Full,
            max_names: 5,
            params: BfsParams { lmax: 16, max_depth: 3, max_states: 4000 },
            label: "panel P x full unions, depth 3",
        });
    }
    v.push(Plan {
        docs: docs::deep_docs(thorough),
        alpha: AlphaSize::Singles,
        max_names: 4,
        params: BfsParams { lmax: 8, max_depth: if thorough { 2 } else { 1 }, max_states: 40 },
        label: "documents deeper than a parser accepts (127..129, thorough 3..160, wrappers around a branching core) x single-selector segments, depth 1 (2)",
    });
    if prop == "C03" {
        v.push(Plan {
            docs: docs::names_universe(thorough),
            alpha: AlphaSize::Singles,
            max_names: 3,
            params: BfsParams { lmax: 8, max_depth: 2, max_states: 500 },
            label: "names universe N x single-selector segments, depth 2",
        });
    } else {
        v.push(Plan {
            docs: docs::names_universe(false),
            alpha: AlphaSize::Singles,
            max_names: 3,
            params: BfsParams { lmax: 8, max_depth: 2, max_states: 300 },
            label: "names universe N x single-selector segments, depth 2",
        });
    }
    v
}

// ---------------------------------------------------------------------------------------------
// C03: the reported paths after a history of other calls on the same thread

const HIST_DOCS: [&str; 2] = [r#"{"a":[10,20,{"b":30}],"c":{"d":[[1,2],[3]]}}"#, r#"[[1,2,3],{"a":{"a":1}},"x"]"#];
const HIST_QUERIES: [&str; 10] = ["$.a[-1].b", "$..*", "$[?@.a]", "$.a[", "$.", "$[?@ > ]", "", "$[?length(@.a,@.b)==1]", "$[?@.n==9007199254740993]", "$.zz"];
const PROBES: [&str; 7] = ["$.a[-1].b", "$[0][::-1]", "$..[0]", "$..a", "$[?@.a].a", "$.*.*", "$.c.d[-2:][-1]"];

/// entry 0..5: query, query_with_path, query_only_path, parse_json_path, reference, js_path_process on a fresh parse
fn hist_call(entry: usize, q: &str, doc: &Value) {
    use jsonpath_rust::query::queryable::Queryable;
    use jsonpath_rust::JsonPath;
    let _ = std::panic::catch_unwind(std::panic::AssertUnwindSafe(|| match entry {
        0 => {
            let _ = doc.query(q);
        }
        1 => {
            let _ = doc.query_with_path(q);
        }
        2 => {
            let _ = doc.query_only_path(q);
        }
        3 => {
            let _ = jsonpath_rust::parser::parse_json_path(q);
        }
        4 => {
            let _ = doc.reference(q.to_string());
        }
        _ => {
            if let Ok(jq) = jsonpath_rust::parser::parse_json_path(q) {
                let _ = jsonpath_rust::query::js_path_process(&jq, doc);
            }
        }
    }));
}

/// one history (on the calling thread), then every probe through the three path-reporting entry points
fn hist_probe(run: &Run, acc: &mut Acc, docs: &[Value], hist: &[(usize, usize, usize)]) {
    use crate::checks::common::{check_obs, DocCtx, Mode, Outcome};
    for (e, q, d) in hist {
        hist_call(*e, HIST_QUERIES[*q], &docs[*d]);
    }
    acc.states += 1;
    for (di, doc) in docs.iter().enumerate() {
        let dc = DocCtx::new(doc);
        for p in PROBES {
            let ast = crate::model::parse::rfc_parse(p).expect("probe is valid").0;
            let case = || json!({"kind": "path-history", "class": "paths after a history of calls", "history": hist.iter().map(|(e, q, d)| json!([e, HIST_QUERIES[*q], d])).collect::<Vec<_>>(), "probe": p, "doc": di});
            let mut tmp = Acc::new();
            let outs = [imp::run_with_path(p, doc, &dc.am), match imp::parse(p) {
                Ok(Ok(jq)) => imp::run_parsed(&jq, doc, &dc.am),
                _ => ImplOut::Err("parse".into()),
            }];
            acc.transitions += 1;
            for out in &outs {
                match check_obs(run, &mut tmp, p, &ast, &dc, out, Mode::NodesAndPaths, "paths after a history of calls") {
                    Outcome::Violation => {
                        acc.viol(format!("after the calls {:?} on this thread: {}", hist.iter().map(|(e, q, d)| (["query", "query_with_path", "query_only_path", "parse_json_path", "reference", "js_path_process"][*e], HIST_QUERIES[*q], *d)).collect::<Vec<_>>(), tmp.first_violation().unwrap_or_default()), case());
                        return;
                    }
                    Outcome::Agree(k) => {
                        acc.evals += 1;
                        if k > 0 {
                            acc.nontrivial += 1;
                        }
                    }
                    _ => {}
                }
            }
            // query_only_path: the same paths as query_with_path reports
            if let (ImplOut::Ok(v), Ok(Ok(paths))) = (&outs[0], imp::run_only_path(p, doc)) {
                if v.iter().map(|x| x.1.clone()).collect::<Vec<_>>() != paths {
                    acc.viol(format!("after the calls {:?}: query_only_path({}) returns {:?}, query_with_path {:?}", hist, p, paths, v), case());
                    return;
                }
            }
        }
    }
}

fn history_paths(run: &Run, thorough: bool) -> Acc {
    let docs: Vec<Value> = HIST_DOCS.iter().map(|d| serde_json::from_str(d).unwrap()).collect();
    let mut alphabet = vec![];
    for e in 0..6 {
        for q in 0..HIST_QUERIES.len() {
            alphabet.push((e, q, (e + q) % 2));
        }
    }
    let mut hists: Vec<Vec<(usize, usize, usize)>> = vec![vec![]];
    for a in &alphabet {
        hists.push(vec![*a]);
    }
    for a in &alphabet {
        for b in &alphabet {
            hists.push(vec![*a, *b]);
        }
    }
    if thorough {
        // depth 3 over the calls that can fail (the rejected query strings) and one that succeeds per entry point
        let small: Vec<(usize, usize, usize)> = alphabet.iter().filter(|(_, q, _)| [0usize, 3, 5, 7].contains(q)).cloned().collect();
        for a in &small {
            for b in &small {
                for c in &small {
                    hists.push(vec![*a, *b, *c]);
                }
            }
        }
    }
    // every history on its own fresh thread (thread-local state starts empty; a replay needs only the history)
    let mut acc = hists
        .par_iter()
        .map(|h| {
            let mut acc = Acc::new();
            std::thread::scope(|s| {
                s.spawn(|| hist_probe(run, &mut acc, &docs, h)).join().expect("history thread");
            });
            acc
        })
        .reduce(Acc::new, Acc::merge);
    acc.bump("call_histories", hists.len() as u64);
    acc
}

pub fn replay_path_history(case: &Value, run: &Run) -> Acc {
    let mut acc = Acc::new();
    let docs: Vec<Value> = HIST_DOCS.iter().map(|d| serde_json::from_str(d).unwrap()).collect();
    let mut hist = vec![];
    for h in case["history"].as_array().cloned().unwrap_or_default() {
        let q = HIST_QUERIES.iter().position(|x| Some(*x) == h[1].as_str()).unwrap_or(0);
        hist.push((h[0].as_u64().unwrap_or(0) as usize, q, h[2].as_u64().unwrap_or(0) as usize));
    }
    println!("history: {:?}", hist);
    std::thread::scope(|s| {
        s.spawn(|| hist_probe(run, &mut acc, &docs, &hist)).join().expect("history thread");
    });
    acc
}

/// size ladder: wide arrays and objects around powers of two (where an implementation may switch strategy), with
/// queries whose parameters are derived from the size, against the reference model
fn size_ladder(run: &Run, thorough: bool, mode: crate::checks::common::Mode) -> Acc {
    use crate::checks::common::{check_case, DocCtx, Outcome};
    let mut sizes: Vec<usize> = vec![15, 16, 17, 31, 32, 33, 63, 64, 65, 127, 128, 129, 255, 256, 257];
    if thorough {
        sizes.extend([511, 512, 513, 1000, 1023, 1024, 1025, 4096, 4097]);
    }
    sizes
        .par_iter()
        .map(|&n| {
            let mut acc = Acc::new();
            let ints = Value::Array((0..n).map(|i| json!(i % 7)).collect());
            let objs = Value::Array((0..n).map(|i| json!({"a": i % 3, "b": [i, i % 2]})).collect());
            let wide: Value = Value::Object((0..n).map(|i| (format!("k{}", i), if i % 5 == 0 { json!([i]) } else { json!(i % 4) })).collect());
            let h = n / 2;
            let arr_q = vec![
                "$[*]".to_string(), format!("$[{}]", n - 1), format!("$[-{}]", n), format!("$[{}]", n), format!("$[-{}]", n + 1), "$[::2]".into(), "$[::-1]".into(), format!("$[{}:]", h), format!("$[:{}:3]", h),
                "$[-3:]".into(), format!("$[{}:{}:-2]", n, h), format!("$[0,{},-1]", n - 1), format!("$[{}:{}]", n - 1, n + 5), "$[?@>3]".into(), "$[?@==0]".into(), "$..*".into(),
                format!("$[?length($)=={}]", n), format!("$[?count($[*])=={}]", n), format!("$[?count($[?@==0])>{}]", n / 8), format!("$[?$[{}]==@]", n - 1), format!("$[?$[-{}]==@]", n),
            ];
            let obj_q = vec![
                "$[*].a".to_string(), "$[?@.a==1].b[0]".into(), "$..b[0]".into(), format!("$[?@.b[0]>{}]", h), format!("$[{}].b[-1]", n - 1), "$[::-3].a".into(), format!("$[?@.b[0]=={}]", n - 1), "$[*]['a','b']".into(),
                format!("$[?count($[?@.a==1])>{}]", n / 4), "$..[?@.a==2].b".into(),
            ];
            let wide_q = vec![
                "$[*]".to_string(), "$.*".into(), format!("$.k{}", n - 1), format!("$['k0','k{}']", n - 1), format!("$.k{}", n), "$..[0]".into(), "$[?@>2]".into(), "$[?@[0]]".into(), format!("$[?count($.*)=={}]", n),
                format!("$[?length($)=={}]", n), format!("$..['k{}','k1']", h), "$..*".into(),
            ];
            for (doc, qs) in [(&ints, &arr_q), (&objs, &obj_q), (&wide, &wide_q)] {
                let dc = DocCtx::new(doc);
                for q in qs {
                    let ast = crate::model::parse::rfc_parse(q).unwrap_or_else(|e| panic!("size-ladder query {} must be valid: {:?}", q, e)).0;
                    acc.transitions += 1;
                    if let Outcome::Agree(k) = check_case(run, &mut acc, q, &ast, &dc, mode, "size ladder") {
                        if k > 0 {
                            acc.nontrivial += 1;
                        }
                    }
                }
            }
            acc
        })
        .reduce(Acc::new, Acc::merge)
}

pub fn run(prop: &str, tier: &str) -> i32 {
    let run = Run::new(prop, tier);
    let check: fn(&Edge, &Run, &mut Acc) = match prop {
        "C01" => check_c01,
        "C02" => check_c02,
        "C03" => check_c03,
        _ => unreachable!(),
    };
    let mut total = Acc::new();
    let mut labels = vec![];
    for plan in plans(prop, run.thorough()) {
        let t0 = std::time::Instant::now();
        let acc = plan
            .docs
            .par_iter()
            .map(|d| {
                let mut acc = Acc::new();
                let alpha = alphabet(d, plan.alpha, plan.max_names, prop == "C03" || plan.label.starts_with("names universe"));
                bfs(d, &alpha, &plan.params, &mut acc, |e, acc| check(e, &run, acc));
                acc
            })
            .reduce(Acc::new, Acc::merge);
        labels.push(format!(
            "{}: {} documents, {} states, {} transitions, {:.1}s",
            plan.label,
            plan.docs.len(),
            acc.states,
            acc.transitions,
            t0.elapsed().as_secs_f64()
        ));
        eprintln!("  {}", labels.last().unwrap());
        total = total.merge(acc);
    }
    {
        let t0 = std::time::Instant::now();
        let mut docs = docs::panel();
        docs.extend(docs::names_universe(false));
        let mode = match prop {
            "C03" => crate::checks::common::Mode::NodesAndPaths,
            "C01" => crate::checks::common::Mode::Multiset,
            _ => crate::checks::common::Mode::Nodes,
        };
        let acc = crate::checks::lifted::lifted(&run, &docs, if run.thorough() { 5 } else { 3 }, mode);
        labels.push(format!("construct x context matrix: {} documents, {} (selector, context) queries, {} evaluations, {:.1}s", docs.len(), acc.transitions, acc.evals, t0.elapsed().as_secs_f64()));
        eprintln!("  {}", labels.last().unwrap());
        total = total.merge(acc);
        let t0 = std::time::Instant::now();
        let acc = crate::checks::lifted::prepared(&run, &docs::panel(), mode);
        labels.push(format!("prepared queries ({} queries parsed once, each over the panel forwards and backwards): {} evaluations, {:.1}s", crate::checks::lifted::PREPARED.len(), acc.transitions, t0.elapsed().as_secs_f64()));
        eprintln!("  {}", labels.last().unwrap());
        total = total.merge(acc);
        let t0 = std::time::Instant::now();
        let acc = size_ladder(&run, run.thorough(), mode);
        labels.push(format!("size ladder (arrays / objects of 15..257 (thorough ..4097) children, size-derived queries): {} queries, {:.1}s", acc.transitions, t0.elapsed().as_secs_f64()));
        eprintln!("  {}", labels.last().unwrap());
        total = total.merge(acc);
    }
    if prop == "C03" {
        let t0 = std::time::Instant::now();
        let acc = history_paths(&run, run.thorough());
        labels.push(format!("paths after call histories: {} histories x {} probes x 3 entry points, {:.1}s", acc.extra.get("call_histories").copied().unwrap_or(0), PROBES.len() * HIST_DOCS.len(), t0.elapsed().as_secs_f64()));
        eprintln!("  {}", labels.last().unwrap());
        total = total.merge(acc);
    }
    let rule = match prop {
        "C01" => "one case = one edge (nodelist state, segment) of the product of the real evaluator and the RFC reference model; states de-duplicated per document on the evaluator's full observable state; plus the construct x context matrix: every selector of the per-document alphabet in 34 syntactic positions (filter test, function argument, comparison operand, nested, descendant, union, after a multi-node segment) against the model; non-trivial = the model selects at least one node",
        "C02" => "one case = one edge (nodelist state, segment); non-trivial = the result has at least two nodes, so its order is constrained",
        _ => "one case = one edge (nodelist state, segment) plus one re-query per distinct reported path; plus: every history of up to two calls (six entry points x valid and rejected query strings) on a fresh thread followed by probe queries whose paths are checked; non-trivial = at least one (node, path) pair is reported",
    };
    run.finish(
        total,
        rule,
        &[
            "reference model in mc/src/model (validated against the RFC 9535 worked examples by `jpmc selftest`)",
            "object member order = insertion order (serde_json preserve_order)",
            "descendant visiting order: the linear extension of the RFC 2.5.2.2 partial order in which object members are visited in the document's own member order (the property fixes what the RFC leaves open)",
            "states whose nodelist exceeds Lmax are checked but not expanded (counter truncated_states)",
        ],
        true,
        json!({"plans": labels}),
    )
}

/// re-execute one recorded edge without the explorer
pub fn replay_edge(case: &Value, run: &Run) -> Acc {
    use crate::explore::bfs::{impl_segment, ObsState};
    use crate::model::parse::rfc_parse;
    use jsonpath_rust::parser::model::JpQuery;
    let mut acc = Acc::new();
    let doc = &case["doc"];
    // the string queries the worker thread had run before the failing round trip (same document: what matters for
    // state keyed on query text is the text)
    if let Some(h) = case["requery_history"].as_array() {
        let am0 = AddrMap::new(doc);
        for q in h.iter().filter_map(|x| x.as_str()) {
            let _ = imp::run_with_path(q, doc, &am0);
        }
        println!("replayed {} earlier path queries of the worker thread", h.len());
    }
    let prefix = case["prefix"].as_str().unwrap_or("$");
    let action = case["action"].as_str().unwrap_or("");
    let pq = rfc_parse(prefix).expect("replay prefix").0;
    let aq = rfc_parse(&format!("${}", action)).expect("replay action").0;
    let action = aq.segs[0].clone();
    let am = AddrMap::new(doc);
    let psegs: Vec<_> = pq.segs.iter().map(|s| impl_segment(s).expect("prefix segment")).collect();
    let pj = JpQuery::new(psegs.clone());
    let input = match (imp::run_parsed(&pj, doc, &am), imp::state_tag(&pj, doc)) {
        (ImplOut::Ok(nodes), Ok(tag)) => ObsState { tag, nodes },
        other => {
            println!("prefix {} no longer evaluates: {:?}", prefix, other);
            acc.viol(format!("prefix {} does not evaluate", prefix), case.clone());
            return acc;
        }
    };
    let mut all = psegs;
    all.push(impl_segment(&action).expect("action segment"));
    let jq = JpQuery::new(all);
    let out = imp::run_parsed(&jq, doc, &am);
    let tag = imp::state_tag(&jq, doc);
    let e = Edge { doc, am: &am, prefix: &pq.segs, action: &action, input: &input, out: &out, out_tag: &tag };
    println!("document : {}", doc);
    println!("query    : {}", e.query_string());
    println!("input    : {:?}", input.nodes.iter().map(|x| x.1.clone()).collect::<Vec<_>>());
    println!("observed : {:?} (tag {:?})", out, tag);
    if let Ok(n) = e.model_succ(EDev::default()) {
        println!("model    : {:?}", n.iter().map(|x| normpath(&x.loc)).collect::<Vec<_>>());
    }
    match run.prop.as_str() {
        "C01" => check_c01(&e, run, &mut acc),
        "C02" => check_c02(&e, run, &mut acc),
        "C03" => check_c03(&e, run, &mut acc),
        _ => {}
    }
    acc
}
