//! C14: the five documented extension functions (in, nin, none_of, any_of, subset_of) as set membership.

use super::common::DocCtx;
use crate::acc::{Acc, Run};
use crate::imp::{self, ImplOut};
use rayon::prelude::*;
use serde_json::{json, Map, Value};

fn elems(thorough: bool) -> Vec<Value> {
    let mut v = vec![json!(1), json!("a"), json!(null), json!([1]), json!({"a": 1})];
    if thorough {
        v.push(json!(true));
        v.push(json!([]));
    }
    v
}

/// second-argument universe: arrays up to `maxlen` over the element set, non-arrays, and "missing" (None)
fn lists(thorough: bool) -> Vec<Option<Value>> {
    let e = elems(thorough);
    let maxlen = if thorough { 3 } else { 2 };
    let mut out: Vec<Option<Value>> = vec![Some(json!([]))];
    let mut level: Vec<Vec<Value>> = vec![vec![]];
    for _ in 0..maxlen {
        let mut next = vec![];
        for t in &level {
            for x in &e {
                let mut t2 = t.clone();
                t2.push(x.clone());
                next.push(t2);
            }
        }
        for t in &next {
            out.push(Some(Value::Array(t.clone())));
        }
        level = next;
    }
    for x in [json!(5), json!("a"), json!({}), json!(null)] {
        out.push(Some(x));
    }
    // strings that spell a JSON array: a string is not an array
    for x in [json!("[1]"), json!("[\"a\",1]"), json!("[]"), json!("[null]"), json!("1,a")] {
        out.push(Some(x));
    }
    out.push(None);
    out
}

fn xs() -> Vec<Option<Value>> {
    let mut v: Vec<Option<Value>> = [json!(1), json!(2), json!("a"), json!("b"), json!(null), json!(true), json!([1]), json!([]), json!({"a": 1}), json!("1"), json!("[1]"), json!("null")].into_iter().map(Some).collect();
    v.push(None);
    v
}

/// the property's definition
pub fn oracle(fname: &str, a: &Option<Value>, b: &Option<Value>) -> bool {
    let (a, b) = match (a, b) {
        (Some(a), Some(b)) => (a, b),
        _ => return false,
    };
    match fname {
        "in" | "nin" => match b {
            Value::Array(l) => l.iter().any(|e| e == a) == (fname == "in"),
            _ => false,
        },
        "any_of" | "none_of" | "subset_of" => match (a, b) {
            (Value::Array(x), Value::Array(y)) => match fname {
                "any_of" => x.iter().any(|e| y.contains(e)),
                "none_of" => !x.iter().any(|e| y.contains(e)),
                _ => x.iter().all(|e| y.contains(e)),
            },
            _ => false,
        },
        _ => unreachable!(),
    }
}

fn cell_doc(b: &Option<Value>, cells: &[Option<Value>], bare: bool) -> Value {
    let mut m = Map::new();
    if let Some(b) = b {
        m.insert("l".into(), b.clone());
    }
    let arr: Vec<Value> = cells
        .iter()
        .map(|a| {
            if bare {
                a.clone().unwrap()
            } else {
                let mut o = Map::new();
                if let Some(a) = a {
                    o.insert("x".into(), a.clone());
                }
                Value::Object(o)
            }
        })
        .collect();
    m.insert("elems".into(), Value::Array(arr));
    Value::Object(m)
}

/// one packed evaluation: all first arguments `cells` against second argument `b`
pub fn ext_case(run: &Run, acc: &mut Acc, fname: &str, form: &str, b: &Option<Value>, cells: &[Option<Value>]) {
    let bare = form == "@";
    let cells: Vec<Option<Value>> = if bare { cells.iter().filter(|c| c.is_some()).cloned().collect() } else { cells.to_vec() };
    let doc = cell_doc(b, &cells, bare);
    let q = match form {
        "@" => format!("$.elems[?{}(@,$.l)]", fname),
        "@.x" => format!("$.elems[?{}(@.x,$.l)]", fname),
        "@['x'] spaced" => format!("$.elems[? {}( @['x'] , $['l'] ) ]", fname),
        "negated" => format!("$.elems[?!{}(@.x,$.l)]", fname),
        _ => unreachable!(),
    };
    let dc = DocCtx::new(&doc);
    acc.evals += cells.len() as u64;
    let out = imp::run_with_path(&q, &doc, &dc.am);
    let neg = form == "negated";
    let expect: Vec<bool> = cells.iter().map(|a| oracle(fname, a, b) != neg).collect();
    acc.nontrivial += expect.iter().filter(|x| **x).count() as u64;
    let case = || json!({"kind": "ext", "class": format!("{} {}", fname, form), "fname": fname, "form": form, "l": b, "l_missing": b.is_none(), "cells": cells.iter().map(|c| c.clone().unwrap_or(json!("<missing>"))).collect::<Vec<_>>(), "missing_cells": cells.iter().map(|c| c.is_none()).collect::<Vec<_>>(), "query": q, "doc": doc});
    match out {
        ImplOut::Ok(v) => {
            // kept elements, in order
            let mut want = vec![];
            for (i, e) in expect.iter().enumerate() {
                if *e {
                    want.push(format!("$['elems'][{}]", i));
                }
            }
            let got: Vec<String> = v.iter().map(|x| if x.0 == imp::FABRICATED { "<not a node>".to_string() } else { crate::model::normpath::normpath(dc.am.loc(x.0)) }).collect();
            if got != want {
                let first = (0..cells.len()).find(|i| want.contains(&format!("$['elems'][{}]", i)) != got.contains(&format!("$['elems'][{}]", i)));
                acc.viol(
                    format!(
                        "{} on {}: must keep {:?}, kept {:?}{}",
                        q,
                        doc,
                        want,
                        got,
                        first.map(|i| format!(" ; first differing cell: {}({}, {}) must be {}", fname, cells[i].clone().map(|v| v.to_string()).unwrap_or("<missing>".into()), b.clone().map(|v| v.to_string()).unwrap_or("<missing>".into()), expect[i] != neg)).unwrap_or_default()
                    ),
                    case(),
                );
            } else {
                acc.sample(|| json!({"query": q, "doc": doc, "kept": got}));
            }
        }
        other => {
            acc.viol(format!("{} on {}: must evaluate (a failing test is false, not an error), got {}", q, doc, other.short()), case());
        }
    }
}

/// `q` must keep exactly the children of `$.elems` whose `expect` is true, in order
fn judge(acc: &mut Acc, q: &str, doc: &Value, expect: &[bool], class: &str, explain: &dyn Fn(usize) -> String) {
    let dc = DocCtx::new(doc);
    acc.evals += expect.len() as u64;
    acc.nontrivial += expect.iter().filter(|x| **x).count() as u64;
    let want: Vec<String> = expect.iter().enumerate().filter(|(_, e)| **e).map(|(i, _)| format!("$['elems'][{}]", i)).collect();
    let case = || json!({"kind": "query-kept", "class": class, "query": q, "doc": doc, "want": want});
    match imp::run_with_path(q, doc, &dc.am) {
        ImplOut::Ok(v) => {
            let got: Vec<String> = v.iter().map(|x| if x.0 == imp::FABRICATED { "<not a node>".to_string() } else { crate::model::normpath::normpath(dc.am.loc(x.0)) }).collect();
            if got != want {
                let first = (0..expect.len()).find(|i| want.contains(&format!("$['elems'][{}]", i)) != got.contains(&format!("$['elems'][{}]", i)));
                acc.viol(format!("{} on {}: must keep {:?}, kept {:?}{}", q, doc, want, got, first.map(|i| format!(" ; first differing cell: {}", explain(i))).unwrap_or_default()), case());
            }
        }
        other => acc.viol(format!("{} on {}: must evaluate (a failing test is false, not an error), got {}", q, doc, other.short()), case()),
    }
}

pub fn replay_kept(case: &Value, _run: &Run) -> Acc {
    let mut acc = Acc::new();
    let q = case["query"].as_str().unwrap_or("$");
    let doc = &case["doc"];
    let dc = DocCtx::new(doc);
    let want: Vec<String> = case["want"].as_array().map(|a| a.iter().filter_map(|x| x.as_str().map(String::from)).collect()).unwrap_or_default();
    let out = imp::run_with_path(q, doc, &dc.am);
    println!("query    : {}\ndocument : {}\nexpected : {:?}\nobserved : {:?}", q, doc, want, out);
    match out {
        ImplOut::Ok(v) if v.iter().map(|x| x.1.clone()).collect::<Vec<_>>() == want => {}
        other => acc.viol(format!("{} on {}: must keep {:?}, got {}", q, doc, want, other.short()), case.clone()),
    }
    acc
}

/// arguments reached through an index (positive, negative, out of range on either side): a negative index before
/// the start of the array selects nothing, it does not wrap
fn indexed_args_part() -> Acc {
    let arrays: Vec<Value> = vec![json!([]), json!([1]), json!(["a", 1]), json!([[1], "a", 2]), json!([1, [1], [[1]], "a"]), json!([null, [], {}, [null], 0])];
    let l = json!([1, "a", [1], null, 2]);
    let pick = |a: &Value, i: i64| -> Option<Value> {
        let v = a.as_array()?;
        let n = v.len() as i64;
        let k = if i >= 0 { i } else { n + i };
        if k >= 0 && k < n {
            Some(v[k as usize].clone())
        } else {
            None
        }
    };
    let cells: Vec<Option<Value>> = arrays.iter().cloned().map(Some).collect();
    let mut acc = Acc::new();
    let doc = cell_doc(&Some(l.clone()), &cells, false);
    for i in -7i64..=7 {
        for f in ["in", "nin"] {
            let expect: Vec<bool> = arrays.iter().map(|a| oracle(f, &pick(a, i), &Some(l.clone()))).collect();
            judge(&mut acc, &format!("$.elems[?{}(@.x[{}],$.l)]", f, i), &doc, &expect, "arguments reached through an index", &|k| format!("{}({}[{}], {}) must be {}", f, arrays[k], i, l, expect[k]));
            let expect2: Vec<bool> = arrays.iter().map(|a| oracle(f, &pick(&l, i), &Some(a.clone()))).collect();
            judge(&mut acc, &format!("$.elems[?{}($.l[{}],@.x)]", f, i), &doc, &expect2, "arguments reached through an index", &|k| format!("{}({}[{}], {}) must be {}", f, l, i, arrays[k], expect2[k]));
        }
        for f in ["any_of", "none_of", "subset_of"] {
            let expect: Vec<bool> = arrays.iter().map(|a| oracle(f, &pick(a, i), &Some(l.clone()))).collect();
            judge(&mut acc, &format!("$.elems[?{}(@.x[{}],$.l)]", f, i), &doc, &expect, "arguments reached through an index", &|k| format!("{}({}[{}], {}) must be {}", f, arrays[k], i, l, expect[k]));
            let expect2: Vec<bool> = arrays.iter().map(|a| oracle(f, &Some(a.clone()), &pick(&json!([l.clone(), [1], "a", [[1]]]), i))).collect();
            let doc2 = cell_doc(&Some(json!([l.clone(), [1], "a", [[1]]])), &cells, false);
            judge(&mut acc, &format!("$.elems[?{}(@.x,$.l[{}])]", f, i), &doc2, &expect2, "arguments reached through an index", &|k| format!("{}({}, l[{}]) must be {}", f, arrays[k], i, expect2[k]));
        }
    }
    acc
}

/// integers above i64::MAX (stored as u64): neighbours that round to one f64 are different elements
fn big_integers_part() -> Acc {
    let a = json!(18446744073709551615u64);
    let b = json!(18446744073709551614u64);
    let c = json!(9223372036854775808u64);
    let d = json!(9223372036854775809u64);
    let e = json!(9223372036854775807i64);
    let nums = [a.clone(), b.clone(), c.clone(), d.clone(), e.clone()];
    let mut lists: Vec<Option<Value>> = vec![Some(json!([]))];
    for x in &nums {
        lists.push(Some(json!([x])));
        lists.push(Some(json!([[x]])));
        lists.push(Some(json!([{"k": x}, 1])));
        for y in &nums {
            lists.push(Some(json!([x, y])));
        }
    }
    let scalars: Vec<Option<Value>> = nums.iter().cloned().map(Some).chain([Some(json!([a.clone()])), Some(json!({"k": c.clone()})), None]).collect();
    let mut acc = Acc::new();
    for l in &lists {
        for f in ["any_of", "none_of", "subset_of"] {
            let expect: Vec<bool> = lists.iter().map(|x| oracle(f, x, l)).collect();
            let doc = cell_doc(l, &lists, false);
            judge(&mut acc, &format!("$.elems[?{}(@.x,$.l)]", f), &doc, &expect, "integers above i64::MAX", &|i| format!("{}({}, {}) must be {}", f, lists[i].clone().unwrap(), l.clone().unwrap(), expect[i]));
        }
        for f in ["in", "nin"] {
            let expect: Vec<bool> = scalars.iter().map(|x| oracle(f, x, l)).collect();
            let doc = cell_doc(l, &scalars, false);
            judge(&mut acc, &format!("$.elems[?{}(@.x,$.l)]", f), &doc, &expect, "integers above i64::MAX", &|i| format!("{}({}, {}) must be {}", f, scalars[i].clone().map(|v| v.to_string()).unwrap_or("<missing>".into()), l.clone().unwrap(), expect[i]));
        }
    }
    acc
}

/// computed first arguments of in / nin: the Boolean of a parenthesised or negated logical expression, and the
/// results of length / count / value - each depends on the child under test
fn computed_first_part() -> Acc {
    use crate::model::ast::Op;
    use crate::model::eval::compare;
    let xs = xs();
    let lists: Vec<Value> = vec![json!([true]), json!([false]), json!([false, true]), json!([]), json!(["true", 1, null]), json!([0, 1, 2]), json!([[1], "a", {"a": 1}])];
    let one = json!(1);
    let forms: Vec<(&str, Box<dyn Fn(&Option<Value>) -> Option<Value> + Sync>)> = vec![
        ("(@.x==1)", Box::new(move |x| Some(json!(compare(x.as_ref(), Op::Eq, Some(&one)))))),
        ("(@.x!=1)", Box::new(|x| Some(json!(!compare(x.as_ref(), Op::Eq, Some(&json!(1))))))),
        ("!@.x", Box::new(|x| Some(json!(x.is_none())))),
        ("(@.x)", Box::new(|x| Some(json!(x.is_some())))),
        ("(@.x&&@.x!=null)", Box::new(|x| Some(json!(x.is_some() && x != &Some(json!(null)))))),
        ("length(@.x)", Box::new(|x| match x {
            Some(Value::String(s)) => Some(json!(s.chars().count())),
            Some(Value::Array(a)) => Some(json!(a.len())),
            Some(Value::Object(m)) => Some(json!(m.len())),
            _ => None,
        })),
        ("count(@.x.*)", Box::new(|x| Some(match x {
            Some(Value::Array(a)) => json!(a.len()),
            Some(Value::Object(m)) => json!(m.len()),
            _ => json!(0),
        }))),
        ("value(@.x)", Box::new(|x| x.clone())),
    ];
    let mut acc = Acc::new();
    for l in &lists {
        let doc = cell_doc(&Some(l.clone()), &xs, false);
        for (text, val) in &forms {
            for f in ["in", "nin"] {
                let firsts: Vec<Option<Value>> = xs.iter().map(|x| val(x)).collect();
                let expect: Vec<bool> = firsts.iter().map(|a| oracle(f, a, &Some(l.clone()))).collect();
                let explain = |i: usize| format!("{}({} = {}, {}) must be {}", f, text, firsts[i].clone().map(|v| v.to_string()).unwrap_or("<nothing>".into()), l, expect[i]);
                judge(&mut acc, &format!("$.elems[?{}({},$.l)]", f, text), &doc, &expect, "computed first argument", &explain);
                let neg: Vec<bool> = expect.iter().map(|e| !e).collect();
                judge(&mut acc, &format!("$.elems[?!{}({}, $.l)]", f, text), &doc, &neg, "computed first argument", &explain);
                judge(&mut acc, &format!("$.elems[?{}({},$.l)&&@]", f, text), &doc, &expect, "computed first argument", &explain);
            }
        }
    }
    acc
}

/// both arguments relative to the child under test (`f(@.x, @.y)`, `f(@['x'], @.y)`, negated), over the full product
fn relative_pairs_part(thorough: bool) -> Acc {
    let ls = lists(thorough);
    let xs = xs();
    let fns: [(&str, bool); 5] = [("in", true), ("nin", true), ("any_of", false), ("none_of", false), ("subset_of", false)];
    fns.par_iter()
        .map(|(f, scalar_first)| {
            let mut acc = Acc::new();
            let firsts: &Vec<Option<Value>> = if *scalar_first { &xs } else { &ls };
            // thorough has 400+ lists: pair every first argument with a stride of the second arguments
            let stride = if ls.len() > 60 { 7 } else { 1 };
            let mut cells = vec![];
            let mut expect = vec![];
            let mut what = vec![];
            for a in firsts.iter() {
                for b in ls.iter().step_by(stride) {
                    let mut m = Map::new();
                    if let Some(a) = a {
                        m.insert("x".into(), a.clone());
                    }
                    if let Some(b) = b {
                        m.insert("y".into(), b.clone());
                    }
                    cells.push(Value::Object(m));
                    expect.push(oracle(f, a, b));
                    what.push(format!("{}({}, {})", f, a.clone().map(|v| v.to_string()).unwrap_or("<missing>".into()), b.clone().map(|v| v.to_string()).unwrap_or("<missing>".into())));
                }
            }
            let doc = json!({ "elems": cells });
            for (q, neg) in [(format!("$.elems[?{}(@.x,@.y)]", f), false), (format!("$.elems[?{}(@['x'], @[\"y\"])]", f), false), (format!("$.elems[?!{}(@.x,@.y)]", f), true)] {
                let e: Vec<bool> = expect.iter().map(|x| *x != neg).collect();
                judge(&mut acc, &q, &doc, &e, "both arguments relative to the child under test", &|i| format!("{} must be {}", what[i], expect[i]));
            }
            acc
        })
        .reduce(Acc::new, Acc::merge)
}

/// number literals in every spelling as the first argument of in / nin, against lists that hold the same number in the
/// same representation (float literal vs float element, integer literal vs integer element) or other numbers; cells
/// in which an element equals the literal mathematically but not in representation are left out (see assumptions)
fn literal_spellings_part() -> Acc {
    let lits: Vec<(&str, Value)> = vec![
        ("1e2", json!(100.0)), ("1E2", json!(100.0)), ("1e+2", json!(100.0)), ("1.0e2", json!(100.0)), ("100.0", json!(100.0)), ("10e1", json!(100.0)), ("1e0", json!(1.0)), ("-5e1", json!(-50.0)),
        ("1.5", json!(1.5)), ("15e-1", json!(1.5)), ("100", json!(100)), ("1", json!(1)), ("-50", json!(-50)), ("0", json!(0)), ("0.0", json!(0.0)), ("2e3", json!(2000.0)),
        ("1.0000000000000002", json!(1.0000000000000002)), ("0.9999999999999999", json!(0.9999999999999999)), ("1.0", json!(1.0)),
    ];
    let lists: Vec<Value> = vec![json!([100.0]), json!([7.5, 100.0]), json!([1.0]), json!([-50.0, 2.5]), json!([1.5]), json!([100]), json!([1, -50]), json!([]), json!([7.5]), json!([2000.0, 0.5]), json!([0.0]), json!([0]), json!(["100", "1e2"]), json!([1.0000000000000002]), json!([0.9999999999999999, 2.5]), json!([1.0000000000000004])];
    let mut acc = Acc::new();
    for (lit, val) in &lits {
        let same_math = |e: &Value| match (e.as_f64(), val.as_f64()) {
            (Some(a), Some(b)) => a == b,
            _ => false,
        };
        // cells: one list per child; keep only the lists without a representation-only difference
        let cells: Vec<Option<Value>> = lists.iter().filter(|l| l.as_array().unwrap().iter().all(|e| !same_math(e) || e == val)).cloned().map(Some).collect();
        for f in ["in", "nin"] {
            let expect: Vec<bool> = cells.iter().map(|l| oracle(f, &Some(val.clone()), l)).collect();
            let doc = cell_doc(&None, &cells, false);
            for q in [format!("$.elems[?{}({},@.x)]", f, lit), format!("$.elems[?{}( {} , @['x'] )]", f, lit)] {
                judge(&mut acc, &q, &doc, &expect, "number literal spellings as the first argument", &|i| format!("{}({}, {}) must be {}", f, lit, cells[i].clone().unwrap(), expect[i]));
            }
        }
    }
    acc
}

/// both arguments taken from the document so that they can be one and the same node: `f(@.x, @.x)`, `f(@, @)`, and
/// `f(@.x, $.elems[k].x)` for every k (the arguments alias exactly when the child under test is child k)
fn aliased_part(thorough: bool) -> Acc {
    let ls: Vec<Option<Value>> = lists(thorough).into_iter().collect();
    let n = ls.len();
    let doc = cell_doc(&None, &ls, false);
    let bare: Vec<Option<Value>> = ls.iter().filter(|c| c.is_some()).cloned().collect();
    let bare_doc = cell_doc(&None, &bare, true);
    let fns = ["in", "nin", "any_of", "none_of", "subset_of"];
    let mut jobs: Vec<(String, usize)> = vec![];
    for f in fns {
        jobs.push((f.to_string(), usize::MAX));
        for k in 0..n {
            jobs.push((f.to_string(), k));
        }
    }
    jobs.par_iter()
        .map(|(f, k)| {
            let mut acc = Acc::new();
            let say = |a: &Option<Value>, b: &Option<Value>| format!("{}({}, {})", f, a.clone().map(|v| v.to_string()).unwrap_or("<missing>".into()), b.clone().map(|v| v.to_string()).unwrap_or("<missing>".into()));
            if *k == usize::MAX {
                let expect: Vec<bool> = ls.iter().map(|a| oracle(f, a, a)).collect();
                for q in [format!("$.elems[?{}(@.x,@.x)]", f), format!("$.elems[?{}(@['x'], @.x)]", f)] {
                    judge(&mut acc, &q, &doc, &expect, "both arguments are one node", &|i| format!("{} must be {}", say(&ls[i], &ls[i]), expect[i]));
                }
                let neg: Vec<bool> = expect.iter().map(|e| !e).collect();
                judge(&mut acc, &format!("$.elems[?!{}(@.x,@.x)]", f), &doc, &neg, "both arguments are one node", &|i| format!("{} must be {}", say(&ls[i], &ls[i]), expect[i]));
                let eb: Vec<bool> = bare.iter().map(|a| oracle(f, a, a)).collect();
                judge(&mut acc, &format!("$.elems[?{}(@,@)]", f), &bare_doc, &eb, "both arguments are one node", &|i| format!("{} must be {}", say(&bare[i], &bare[i]), eb[i]));
                // an element of the very list it is looked up in
                if f == "in" || f == "nin" {
                    let first = |a: &Option<Value>| a.as_ref().and_then(|v| v.as_array()).and_then(|v| v.first().cloned());
                    let e: Vec<bool> = ls.iter().map(|a| oracle(f, &first(a), a)).collect();
                    judge(&mut acc, &format!("$.elems[?{}(@.x[0],@.x)]", f), &doc, &e, "first argument is an element of the second", &|i| format!("{} must be {}", say(&first(&ls[i]), &ls[i]), e[i]));
                }
            } else {
                let b = &ls[*k];
                let expect: Vec<bool> = ls.iter().map(|a| oracle(f, a, b)).collect();
                judge(&mut acc, &format!("$.elems[?{}(@.x,$.elems[{}].x)]", f, k), &doc, &expect, "second argument is a member of one of the children under test", &|i| format!("{} must be {} (the two arguments are {})", say(&ls[i], b), expect[i], if i == *k { "the same node" } else { "different nodes" }));
                let expect: Vec<bool> = ls.iter().map(|a| oracle(f, b, a)).collect();
                judge(&mut acc, &format!("$.elems[?{}($.elems[{}].x,@.x)]", f, k), &doc, &expect, "first argument is a member of one of the children under test", &|i| format!("{} must be {} (the two arguments are {})", say(b, &ls[i]), expect[i], if i == *k { "the same node" } else { "different nodes" }));
            }
            acc
        })
        .reduce(Acc::new, Acc::merge)
}

pub fn run(tier: &str) -> i32 {
    let run = Run::new("C14", tier);
    let th = run.thorough();
    let ls = lists(th);
    let xs = xs();
    let forms = ["@.x", "@", "@['x'] spaced", "negated"];
    let acc = ls
        .par_iter()
        .map(|b| {
            let mut acc = Acc::new();
            for form in forms {
                for f in ["in", "nin"] {
                    ext_case(&run, &mut acc, f, form, b, &xs);
                }
                for f in ["any_of", "none_of", "subset_of"] {
                    ext_case(&run, &mut acc, f, form, b, &ls);
                }
            }
            // literal first argument
            for (lit, val) in [("1", json!(1)), ("'a'", json!("a")), ("null", json!(null)), ("true", json!(true)), ("2", json!(2))] {
                for f in ["in", "nin"] {
                    let doc = cell_doc(b, &[Some(json!(0))], true);
                    let q = format!("$.elems[?{}({},$.l)]", f, lit);
                    let dc = DocCtx::new(&doc);
                    acc.evals += 1;
                    let expect = oracle(f, &Some(val.clone()), b);
                    if expect {
                        acc.nontrivial += 1;
                    }
                    match imp::run_with_path(&q, &doc, &dc.am) {
                        ImplOut::Ok(v) if (v.len() == 1) == expect && v.len() <= 1 => {}
                        other => acc.viol(
                            format!("{} on {}: {}({}, l) must be {}, got {}", q, doc, f, lit, expect, other.short()),
                            json!({"kind": "query-plain", "class": format!("{} literal", f), "query": q, "doc": doc, "expect_count": expect as u32}),
                        ),
                    }
                }
            }
            acc
        })
        .reduce(Acc::new, Acc::merge);
    // long second arguments (implementations may switch strategy with the size) whose elements are scalars and the
    // strings that spell them
    let long_acc = {
        let mut acc = Acc::new();
        for n in [15usize, 16, 17, 18, 33, 64, 129] {
            let nums: Vec<Value> = (100..100 + n as i64).map(|i| json!(i)).collect();
            let mut mixed = nums.clone();
            mixed[0] = json!(true);
            mixed[1] = json!(null);
            mixed[2] = json!("x");
            let strs: Vec<Value> = (100..100 + n as i64).map(|i| json!(i.to_string())).collect();
            for l in [Value::Array(nums.clone()), Value::Array(mixed), Value::Array(strs)] {
                let b = Some(l);
                let firsts: Vec<Option<Value>> = vec![
                    Some(json!(["100"])), Some(json!([100])), Some(json!(["true"])), Some(json!([true])), Some(json!(["null"])), Some(json!([null])), Some(json!(["x"])), Some(json!([103, "103"])),
                    Some(json!([103, 104])), Some(json!(["103", "104"])), Some(json!([])), Some(json!([100.0])), Some(json!([[100]])), Some(json!(100)), None,
                ];
                let scalars: Vec<Option<Value>> = vec![Some(json!("100")), Some(json!(100)), Some(json!("true")), Some(json!(true)), Some(json!("null")), Some(json!(null)), Some(json!("x")), Some(json!(100.5)), None];
                for form in ["@.x", "negated"] {
                    for f in ["any_of", "none_of", "subset_of"] {
                        ext_case(&run, &mut acc, f, form, &b, &firsts);
                    }
                    for f in ["in", "nin"] {
                        ext_case(&run, &mut acc, f, form, &b, &scalars);
                    }
                }
            }
        }
        acc
    };
    let acc = acc.merge(long_acc).merge(aliased_part(th)).merge(literal_spellings_part()).merge(relative_pairs_part(th)).merge(computed_first_part()).merge(big_integers_part()).merge(indexed_args_part());
    run.finish(
        acc,
        "one case = one (function, first argument, second argument, argument form); all first arguments are packed into one document per second argument; aliased arguments: both arguments from the document, as one node (`f(@.x,@.x)`, `f(@,@)`) and through an absolute path to a member of child k for every k; oracle = set membership as the property states it (false for a missing or non-array argument); non-trivial = the test is true",
        &["element equality is checked only between values for which serde_json structural equality and RFC 9535 `==` coincide (no 1 vs 1.0 pairs)"],
        true,
        json!({"second_arguments": ls.len(), "first_arguments_in": xs.len(), "forms": forms}),
    )
}

pub fn replay(case: &Value, run: &Run) -> Acc {
    let mut acc = Acc::new();
    let fname = case["fname"].as_str().unwrap_or("in").to_string();
    let form = case["form"].as_str().unwrap_or("@.x").to_string();
    let b = if case["l_missing"].as_bool().unwrap_or(false) { None } else { Some(case["l"].clone()) };
    let miss: Vec<bool> = case["missing_cells"].as_array().map(|a| a.iter().map(|x| x.as_bool().unwrap_or(false)).collect()).unwrap_or_default();
    let cells: Vec<Option<Value>> = case["cells"].as_array().cloned().unwrap_or_default().into_iter().enumerate().map(|(i, v)| if miss.get(i).copied().unwrap_or(false) { None } else { Some(v) }).collect();
    println!("query    : {}", case["query"]);
    println!("document : {}", case["doc"]);
    ext_case(run, &mut acc, &fname, &form, &b, &cells);
    acc
}
