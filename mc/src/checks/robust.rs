//! C08 beyond the language enumeration: the integer cube (extreme indices / slice parameters through the
//! parser and through programmatically built queries) and the depth ladder (each nesting construct at
//! growing depths, every rung in its own subprocess so that stack exhaustion is observable).

use crate::acc::{Acc, Run};
use crate::imp::{self, AddrMap, ImplOut};
use jsonpath_rust::parser::model::{JpQuery, Segment, Selector};
use rayon::prelude::*;
use serde_json::{json, Value};
use std::io::Read;
use std::process::{Command, Stdio};
use std::time::{Duration, Instant};

const I53: i128 = 9007199254740991;

fn extremes() -> Vec<i128> {
    vec![0, 1, -1, I53, -I53, I53 - 1, -(I53 - 1), I53 + 1, -(I53 + 1), i64::MAX as i128, i64::MIN as i128, (i64::MAX as i128) + 1, (i64::MIN as i128) - 1, 1i128 << 64]
}

/// regular-expression patterns that stress the pattern pipeline (inline flags, comments, classes, counted repetition,
/// constructs the engine rejects) plus ladders over every depth / length 1..=300 of six nesting shapes; each pattern
/// as a literal and from the document, through match and search: evaluation must return Ok
pub fn regex_patterns(_run: &Run) -> Acc {
    use rayon::prelude::*;
    let mut pats: Vec<String> = [
        "(?x)a#b", "(?x)a # c", "(?x)a#", "(?x) a b ", "(?i)a", "(?s).", "(?m)^a$", "(?-u)a", "(?U)a*", "(?P<n>a)", "(?<n>a)", "a#b", "#", "(?#c)a", "\\p{L}", "\\pL+", "\\d+", "\\w", "\\b", "\\B", "\\A", "\\z",
        "a{2,}", "a{,2}", "a{1000}", "a{100000}", "(a{100}){100}", "((a{30}){30}){30}", "[[:alpha:]]", "[a&&b]", "[a--b]", "[a~~b]", "\\x41", "\\u0041", "\\u{41}", "\\Q..\\E", "(?=a)", "(?!a)", "(?<=a)", "\\1", "(a)\\1",
        "\\", "\\k<n>", "[\\]", "[]", "[^]", "[]a]", "(", ")", "a)|(b", "a)(b", "(?", "(?x", "(?x)", "*", "+", "?", "{", "}", "{1}", "a{1", "a{1,", "|", "||", "^*", "$+", "(?x)\n#", "(?x)(a#)\nb)", "\u{0}", "\n", ".", "\\n", "\\/",
        "\\-", "\\e", "(?x)a#)", "(?x:a#b)", "(?i:a)b", "(?x)[#]", "a(?x)#b", "\u{e9}+", "[\u{10000}-\u{10ffff}]", "\\u{110000}", "\\x{FFFFFFFF}", ".{0,4294967295}", "a{4294967296}",
    ]
    .iter()
    .map(|s| s.to_string())
    .collect();
    for d in 1..=300usize {
        pats.push(format!("{}a{}", "(".repeat(d), ")".repeat(d)));
        pats.push(format!("{}a{}", "(?:".repeat(d), ")".repeat(d)));
        pats.push(format!("{}a{}", "(".repeat(d), ")*".repeat(d)));
        pats.push(format!("{}a{}", "[".repeat(d), "]".repeat(d)));
        pats.push(format!("a{}", "|a".repeat(d)));
        pats.push(format!("{}a", "(?i)".repeat(d)));
    }
    for d in [15usize, 16, 17, 255, 256, 257, 4095, 4096, 65536] {
        pats.push("a".repeat(d));
        pats.push(format!("a{{{}}}", d));
    }
    let subjects = json!(["a", "ab", "", "a#b", "\u{e9}", 1, null]);
    pats.par_iter()
        .map(|p| {
            let mut acc = Acc::new();
            let doc = json!({"p": p, "s": subjects});
            let am = AddrMap::new(&doc);
            for f in ["match", "search"] {
                for q in [format!("$.s[?{}(@,$.p)]", f), format!("$.s[?{}(@,{})]", f, crate::model::render::quote_single(p)), format!("$.s[?!{}(@,{})]", f, crate::model::render::quote_double(p))] {
                    acc.evals += 1;
                    let o = crate::watch::guarded(|| json!({"query": q, "doc": doc}).to_string(), || imp::run_with_path(&q, &doc, &am));
                    match o {
                        ImplOut::Ok(v) => {
                            if !v.is_empty() {
                                acc.nontrivial += 1;
                            }
                        }
                        other => {
                            // a literal the parser rejects is not this family's business (C06)
                            if imp::parse_ok(&q) == Some(false) {
                                acc.bump("skipped_rejected_by_parser", 1);
                                continue;
                            }
                            acc.viol(
                                format!("{} with the pattern {:?}: evaluation must return Ok (an unusable pattern makes the test false), got {}", q, if p.len() > 80 { format!("{}... ({} bytes)", &p[..60], p.len()) } else { p.clone() }, other.short()),
                                json!({"kind": "eval-ok", "class": "regular-expression pattern pipeline", "query": q, "doc": doc}),
                            );
                        }
                    }
                }
            }
            acc
        })
        .reduce(Acc::new, Acc::merge)
}

/// functions over lists: every function that receives whole values (the five extension functions, `length`, `count`,
/// `value`, and `==` / `<` between whole lists) over lists of every size around the thresholds at which library sort /
/// search routines change algorithm (0..=34, 63..=65, 100), for nine element mixes (small integers, strings, integers
/// next to 2^53 and next to 2^60 with and without the doubles they round to, mixed types, nested lists, all-equal) in
/// every one of a fixed set of arrangements (ascending, descending, every rotation by a third / half, four stride
/// permutations, odd-one-out first / last); evaluation must return Ok
pub fn list_functions(run: &Run) -> Acc {
    let mut sizes: Vec<usize> = (0..=34).collect();
    sizes.extend([63, 64, 65, 100]);
    if run.thorough() {
        sizes.extend([127, 128, 129, 255, 256, 257, 1000]);
    }
    fn mix(kind: usize, i: usize) -> Value {
        const B53: i64 = 1 << 53;
        const B60: i64 = 1 << 60;
        match kind {
            0 => json!(i as i64 - 3),
            1 => json!(format!("s{}", i % 50)),
            2 => json!(B53 - 4 + i as i64),
            3 => {
                // integers next to 2^53 and, for every fourth, the double the integer rounds to
                let v = B53 - 4 + i as i64;
                if i % 4 == 3 { json!(v as f64) } else { json!(v) }
            }
            4 => {
                let v = B60 + 37 * i as i64;
                if i % 8 == 5 { json!(v as f64) } else { json!(v) }
            }
            5 => {
                let v = -(B60 + 129 * i as i64);
                if i % 3 == 1 { json!(v as f64) } else { json!(v) }
            }
            6 => match i % 7 {
                0 => json!(null),
                1 => json!(i % 2 == 0),
                2 => json!(i),
                3 => json!(i as f64 + 0.5),
                4 => json!(format!("{}", i)),
                5 => json!([i]),
                _ => json!({"a": i}),
            },
            7 => json!([i % 5, [i % 3]]),
            _ => json!(7),
        }
    }
    const MIXES: usize = 9;
    fn arrangements(n: usize) -> Vec<Vec<usize>> {
        let id: Vec<usize> = (0..n).collect();
        let mut out = vec![id.clone(), id.iter().rev().cloned().collect()];
        if n >= 3 {
            for r in [n / 3, n / 2, n - 1] {
                out.push((0..n).map(|i| (i + r) % n).collect());
            }
            for k in [3usize, 5, 7, 11] {
                if gcd(k, n) == 1 {
                    out.push((0..n).map(|i| (i * k) % n).collect());
                    out.push((0..n).map(|i| (i * k + n / 2) % n).collect());
                }
            }
            // interleave the lower and the upper half
            out.push((0..n).map(|i| if i % 2 == 0 { i / 2 } else { n - 1 - i / 2 }).collect());
        }
        out.sort();
        out.dedup();
        out
    }
    fn gcd(a: usize, b: usize) -> usize {
        if b == 0 { a } else { gcd(b, a % b) }
    }
    let queries = [
        "$.g[?any_of(@,$.l)]",
        "$.g[?none_of(@,$.l)]",
        "$.g[?subset_of(@,$.l)]",
        "$.g[?any_of($.l,@)]",
        "$.g[?subset_of($.l,@)]",
        "$.l[?in(@,$.l)]",
        "$.l[?nin(@,$.g[0])]",
        "$.g[?subset_of(@,@)]",
        "$[?length(@)>=0]",
        "$[?count(@.*)>20]",
        "$.g[?@==$.l]",
        "$.g[?@<$.l||@>=$.l]",
        "$.l[?@==$.l[0]||@<$.l[1]]",
        "$[?value(@)==$.l]",
    ];
    let mut jobs = vec![];
    for n in &sizes {
        for m in 0..MIXES {
            jobs.push((*n, m));
        }
    }
    jobs.par_iter()
        .map(|(n, m)| {
            let mut acc = Acc::new();
            for arr in arrangements(*n) {
                let l: Vec<Value> = arr.iter().map(|i| mix(*m, *i)).collect();
                // the probes: a short prefix, the reversed list, one foreign element, the list itself
                let g = json!([l.iter().take(3).cloned().collect::<Vec<_>>(), l.iter().rev().cloned().collect::<Vec<_>>(), [mix((*m + 1) % MIXES, 1)], l.clone()]);
                let doc = json!({"l": l, "g": g});
                let am = AddrMap::new(&doc);
                acc.bump("lists", 1);
                for q in queries {
                    acc.evals += 1;
                    let o = crate::watch::guarded(|| json!({"query": q, "doc": doc}).to_string(), || imp::run_with_path(q, &doc, &am));
                    match o {
                        ImplOut::Ok(v) => {
                            if !v.is_empty() {
                                acc.nontrivial += 1;
                            }
                        }
                        other => {
                            acc.viol(
                                format!("{} on a list of {} elements (mix {}, arrangement starting {:?}): evaluation must return Ok, got {}", q, n, m, &arr[..arr.len().min(6)], other.short()),
                                json!({"kind": "eval-ok", "class": "functions over lists (size x element mix x arrangement)", "query": q, "doc": doc}),
                            );
                        }
                    }
                }
            }
            acc
        })
        .reduce(Acc::new, Acc::merge)
}

/// programmatically built name selectors: the text of a `Selector::Name` can be anything when the query does not come
/// from the parser (unquoted, quoted, with escapes cut short, with unpaired quotes); evaluation must return Ok
pub fn built_names(_run: &Run) -> Acc {
    use rayon::prelude::*;
    let mut texts: Vec<String> = crate::gen::docs::odd_names();
    let toks = ["\\\\", "\\", "u", "\\u", "\\uD83D", "\\u00", "'", "\"", "a", "\u{e9}", "\\n", "/", "\u{1d11e}"];
    for a in toks {
        texts.push(a.to_string());
        for b in toks {
            texts.push(format!("{}{}", a, b));
            for c in toks {
                texts.push(format!("{}{}{}", a, b, c));
            }
        }
    }
    texts.sort();
    texts.dedup();
    texts
        .par_iter()
        .map(|t| {
            let mut acc = Acc::new();
            let docs = [json!({t.as_str(): 1, "a": {t.as_str(): [2]}}), json!([{t.as_str(): 1}, 1]), json!("s"), json!({"a": 1})];
            for raw in [t.clone(), format!("'{}'", t), format!("\"{}\"", t), format!("'{}", t), format!("{}\"", t)] {
                let sel = Selector::Name(raw.clone());
                let qs = [
                    JpQuery::new(vec![Segment::Selector(sel.clone())]),
                    JpQuery::new(vec![Segment::Descendant(Box::new(Segment::Selector(sel.clone())))]),
                    JpQuery::new(vec![Segment::Selectors(vec![sel.clone(), Selector::Wildcard, sel.clone()])]),
                    JpQuery::new(vec![Segment::Selector(Selector::Wildcard), Segment::Selector(sel.clone())]),
                ];
                for (k, jq) in qs.iter().enumerate() {
                    for d in &docs {
                        acc.evals += 1;
                        let am = AddrMap::new(d);
                        let o = imp::run_parsed(jq, d, &am);
                        match o {
                            ImplOut::Ok(v) => {
                                if !v.is_empty() {
                                    acc.nontrivial += 1;
                                }
                            }
                            other => {
                                acc.viol(
                                    format!("programmatically built name selector {:?} (shape {}) on {}: {}", raw, k, d, other.short()),
                                    json!({"kind": "built-name", "class": "built name selectors", "raw": raw, "shape": k, "doc": d}),
                                );
                                return acc;
                            }
                        }
                    }
                }
            }
            acc
        })
        .reduce(Acc::new, Acc::merge)
}

/// programmatically built queries beyond what the parser lets through: every function-call text of the nesting family
/// that is grammatical but ill-typed (non-singular arguments of length / match / search, logical values where nodes
/// are expected, ...) is built directly from the public model types and evaluated: Ok or Err, never a panic.
/// Guard: for the valid sentence set the builder must produce exactly the tree the parser produces.
pub fn built_queries(_run: &Run) -> Result<Acc, String> {
    use crate::model::parse::{rfc_parse, rfc_parse_dev, PDev};
    use rayon::prelude::*;
    // guard
    let mut bad = 0;
    let mut guarded = 0;
    for q in crate::gen::sentences::sentences(false) {
        let text = crate::model::render::query(&q);
        if let (Some(b), Ok(Ok(p))) = (crate::build::query(&q), imp::parse(&text)) {
            guarded += 1;
            if b != p {
                if bad < 3 {
                    eprintln!("MACHINERY: built tree differs from the parsed tree for {}:\n  built  {:?}\n  parsed {:?}", text, b, p);
                }
                bad += 1;
            }
        }
    }
    if bad > 0 || guarded < 1000 {
        return Err(format!("the query builder does not mirror the parser ({} of {} sentences differ)", bad, guarded));
    }
    let (l1, l2, ar) = crate::checks::lang::fn_nesting_calls();
    let panel: Vec<Value> = crate::checks::lang::eval_panel();
    let ams: Vec<AddrMap> = panel.iter().map(AddrMap::new).collect();
    let calls: Vec<&String> = l1.iter().chain(l2.iter()).chain(ar.iter()).collect();
    let acc = calls
        .par_iter()
        .map(|call| {
            let mut acc = Acc::new();
            for text in [format!("$[?{}]", call), format!("$[?{}==1]", call), format!("$[?!{}]", call), format!("$[?1<={}]", call), format!("$..[?{}&&@]", call)] {
                let ast = match rfc_parse_dev(&text, PDev { no_function_typecheck: true }) {
                    Ok((a, _)) => a,
                    Err(_) => continue,
                };
                let ill_typed = rfc_parse(&text).is_err();
                let jq = match crate::build::query(&ast) {
                    Some(j) => j,
                    None => continue,
                };
                acc.evals += 1;
                if ill_typed {
                    acc.nontrivial += 1;
                }
                for (d, am) in panel.iter().zip(ams.iter()) {
                    if let ImplOut::Panic(p) = imp::run_parsed(&jq, d, am) {
                        acc.viol(
                            format!("the programmatically built query {} ({}) panics on {}: {}", text, if ill_typed { "not well-typed: only constructible through the model types" } else { "well-typed" }, d, p),
                            json!({"kind": "built-query", "class": "built queries (function expressions)", "string": text, "doc": d}),
                        );
                        return acc;
                    }
                }
            }
            acc
        })
        .reduce(Acc::new, Acc::merge);
    Ok(acc)
}

pub fn replay_built_query(case: &Value, _run: &Run) -> Acc {
    use crate::model::parse::{rfc_parse_dev, PDev};
    let mut acc = Acc::new();
    let text = case["string"].as_str().unwrap_or("$");
    let doc = &case["doc"];
    let am = AddrMap::new(doc);
    let jq = rfc_parse_dev(text, PDev { no_function_typecheck: true }).ok().and_then(|(a, _)| crate::build::query(&a));
    match jq {
        None => println!("{} can no longer be built", text),
        Some(jq) => {
            let o = imp::run_parsed(&jq, doc, &am);
            println!("built {:?}\non {} : {}", jq, doc, o.short());
            if let ImplOut::Panic(p) = o {
                acc.viol(format!("built query {} panics on {}: {}", text, doc, p), case.clone());
            }
        }
    }
    acc
}

pub fn replay_built_name(case: &Value, _run: &Run) -> Acc {
    let mut acc = Acc::new();
    let raw = case["raw"].as_str().unwrap_or("").to_string();
    let sel = Selector::Name(raw.clone());
    let jq = match case["shape"].as_u64().unwrap_or(0) {
        0 => JpQuery::new(vec![Segment::Selector(sel)]),
        1 => JpQuery::new(vec![Segment::Descendant(Box::new(Segment::Selector(sel)))]),
        2 => JpQuery::new(vec![Segment::Selectors(vec![sel.clone(), Selector::Wildcard, sel])]),
        _ => JpQuery::new(vec![Segment::Selector(Selector::Wildcard), Segment::Selector(sel)]),
    };
    let doc = &case["doc"];
    let am = AddrMap::new(doc);
    let o = imp::run_parsed(&jq, doc, &am);
    println!("built name {:?} on {} : {}", raw, doc, o.short());
    if !matches!(o, ImplOut::Ok(_)) {
        acc.viol(format!("built name selector {:?} on {}: {}", raw, doc, o.short()), case.clone());
    }
    acc
}

pub fn replay_eval_ok(case: &Value, _run: &Run) -> Acc {
    let mut acc = Acc::new();
    let q = case["query"].as_str().unwrap_or("$");
    let doc = &case["doc"];
    let am = AddrMap::new(doc);
    let o = imp::run_with_path(q, doc, &am);
    println!("query    : {}\ndocument : {}\nobserved : {}", q, doc, o.short());
    if !matches!(o, ImplOut::Ok(_)) {
        acc.viol(format!("{} on {}: evaluation must return Ok, got {}", q, doc, o.short()), case.clone());
    }
    acc
}

pub fn cube(run: &Run) -> Acc {
    let ex = extremes();
    let docs: Vec<Value> = [0usize, 1, 2, 5].iter().map(|n| Value::Array((0..*n).map(|i| json!(i)).collect())).collect();
    let ams: Vec<AddrMap> = docs.iter().map(AddrMap::new).collect();
    {
        let rdir = run.verif_dir.clone();
        crate::watch::start(Duration::from_secs(20), move |case| {
            let path = format!("{}/replays/C08-timeout.json", rdir);
            let _ = std::fs::create_dir_all(format!("{}/replays", rdir));
            let c: Value = serde_json::from_str(case).unwrap_or(json!({"text": case}));
            let _ = std::fs::write(&path, json!({"kind": "timeout", "property": "C08", "case": c}).to_string());
            println!("VIOLATION property=C08 replay={}", path);
            println!("  no result within the 20 s horizon: {}", case);
        });
    }
    let opt: Vec<Option<i128>> = std::iter::once(None).chain(ex.iter().map(|x| Some(*x))).collect();
    let mut triples: Vec<(Option<i128>, Option<i128>, Option<i128>)> = vec![];
    for a in &opt {
        for b in &opt {
            for c in &opt {
                triples.push((*a, *b, *c));
            }
        }
    }
    let f = |x: &Option<i128>| x.map(|v| v.to_string()).unwrap_or_default();
    let in53 = |x: &Option<i128>| x.map_or(true, |v| v.abs() <= I53);
    let examine = |acc: &mut Acc, q: &str| {
        acc.evals += 1;
        match crate::watch::guarded(|| json!({"query": q, "parse_only": true}).to_string(), || imp::parse(q)) {
            Err(p) => acc.viol(format!("parse_json_path({:?}) panicked: {}", q, p), json!({"kind": "parse", "class": "integer cube", "string": q})),
            Ok(Err(_)) => {}
            Ok(Ok(jq)) => {
                acc.nontrivial += 1;
                for (d, am) in docs.iter().zip(ams.iter()) {
                    let o = crate::watch::guarded(|| json!({"query": q, "doc": d}).to_string(), || imp::run_parsed(&jq, d, am));
                    if !matches!(o, ImplOut::Ok(_)) {
                        acc.viol(format!("{} on {}: {}", q, d, o.short()), json!({"kind": "parse-eval", "class": "integer cube", "string": q, "doc": d}));
                        return;
                    }
                }
            }
        }
    };
    let a1 = triples
        .par_iter()
        .map(|(a, b, c)| {
            let mut acc = Acc::new();
            let q = format!("$[{}:{}:{}]", f(a), f(b), f(c));
            examine(&mut acc, &q);
            examine(&mut acc, &format!("$..[{}:{}:{}]", f(a), f(b), f(c)));
            if in53(a) && in53(b) && in53(c) {
                let g = |x: &Option<i128>| x.map(|v| v as i64);
                let jq = JpQuery::new(vec![Segment::Selector(Selector::Slice(g(a), g(b), g(c)))]);
                for (d, am) in docs.iter().zip(ams.iter()) {
                    acc.evals += 1;
                    let o = crate::watch::guarded(|| json!({"query": q, "doc": d, "built": true}).to_string(), || imp::run_parsed(&jq, d, am));
                    if !matches!(o, ImplOut::Ok(_)) {
                        acc.viol(format!("programmatically built {} on {}: {}", q, d, o.short()), json!({"kind": "built-slice", "class": "integer cube (built)", "slice": [g(a), g(b), g(c)], "doc": d}));
                    }
                }
                acc.bump("programmatic_queries", docs.len() as u64);
            }
            acc
        })
        .reduce(Acc::new, Acc::merge);
    let mut a2 = Acc::new();
    for x in &ex {
        for q in [
            format!("$[{}]", x),
            format!("$..[{}]", x),
            format!("$[0,{}]", x),
            format!("$[?@[{}]==1]", x),
            format!("$[?$[{}]==1]", x),
            format!("$[?@[{}]]", x),
            format!("$[?@=={}]", x),
            format!("$[?@<{}]", x),
            format!("$[?length(@)=={}]", x),
            format!("$[?@=={}.5e{}]", x, 1),
            format!("$[?@==1e{}]", x),
        ] {
            examine(&mut a2, &q);
        }
        if x.abs() <= I53 {
            let jq = JpQuery::new(vec![Segment::Selector(Selector::Index(*x as i64))]);
            for (d, am) in docs.iter().zip(ams.iter()) {
                a2.evals += 1;
                let o = imp::run_parsed(&jq, d, am);
                if !matches!(o, ImplOut::Ok(_)) {
                    a2.viol(format!("programmatically built $[{}] on {}: {}", x, d, o.short()), json!({"kind": "built-index", "class": "integer cube (built)", "index": *x as i64, "doc": d}));
                }
            }
        }
    }
    a1.merge(a2)
}

/// nesting shapes whose cost must stay polynomial in the depth: evaluated at small depths (8..32) with a short
/// horizon - work that doubles per level passes depth 16 in milliseconds and never finishes depth 24
pub const EXP_CONSTRUCTS: [&str; 9] = [
    "exp:match-over-filter",
    "exp:search-over-filter-negated",
    "exp:count-filter-gte",
    "exp:count-filter-eq",
    "exp:value-filter-lte",
    "exp:length-value-filter-ne",
    "exp:nested-filter-tests",
    "exp:filter-with-or-and",
    "exp:abs-query-tests",
];

fn rec_nest(d: usize, base: &str, wrap: &dyn Fn(&str) -> String) -> String {
    let mut s = base.to_string();
    for _ in 0..d {
        s = wrap(&s);
    }
    s
}

pub const CONSTRUCTS: [&str; 21] = [
    "wide-array-equality",
    "wide-object-equality",
    "long-string-comparison",
    "wide-array-wildcard",
    "wide-array-filter",
    "wide-object-descendant",
    "long-name",
    "long-string-literal-regex",
    "many-segments-wildcard-fanout",
    "parens",
    "not-parens",
    "nested-filters",
    "function-nesting",
    "name-segments",
    "index-segments-on-nested-arrays",
    "or-chain",
    "and-chain",
    "union",
    "descendant-wildcard-on-nested-arrays",
    "descendant-wildcard-on-nested-objects",
    "filter-descendant-on-nested-arrays",
];

fn nested_array(d: usize) -> Value {
    let mut v = json!(1);
    for _ in 0..d {
        v = Value::Array(vec![v]);
    }
    v
}
fn nested_object(d: usize) -> Value {
    let mut v = json!(1);
    for _ in 0..d {
        let mut m = serde_json::Map::new();
        m.insert("a".into(), v);
        v = Value::Object(m);
    }
    v
}

/// (query, document) of one ladder rung
pub fn rung(construct: &str, d: usize) -> (String, Value) {
    let small = json!([{"a": 1}, {"a": [1]}, 2]);
    match construct {
        "parens" => (format!("$[?{}@.a{}]", "(".repeat(d), ")".repeat(d)), small),
        "not-parens" => (format!("$[?{}@.a{}]", "!(".repeat(d), ")".repeat(d)), small),
        "nested-filters" => (format!("$[?@{}.a{}]", "[?@".repeat(d), "]".repeat(d)), nested_array(8)),
        "function-nesting" => (format!("$[?{}@.a{}==1]", "length(".repeat(d), ")".repeat(d)), small),
        "name-segments" => (format!("${}", ".a".repeat(d)), nested_object(64)),
        "index-segments-on-nested-arrays" => (format!("${}", "[0]".repeat(d)), nested_array(d.min(2000))),
        "or-chain" => (format!("$[?@.a{}]", "||@.a".repeat(d)), small),
        "and-chain" => (format!("$[?@.a{}]", "&&@.a".repeat(d)), small),
        "union" => (format!("$[0{}]", ",0".repeat(d)), small),
        "descendant-wildcard-on-nested-arrays" => ("$..*".to_string(), nested_array(d)),
        "descendant-wildcard-on-nested-objects" => ("$..a".to_string(), nested_object(d)),
        "filter-descendant-on-nested-arrays" => ("$[?@..[0]]".to_string(), nested_array(d)),
        // size ladders: d is a width / length (x16: the rungs 8..32768 give 128..524288 elements or characters)
        "wide-array-equality" => ("$[?@.a==@.b||@.a<=$[0].b]".to_string(), {
            let a: Vec<Value> = (0..d * 16).map(|i| json!(i % 3)).collect();
            json!([{"a": a.clone(), "b": a.clone()}, {"a": a, "b": [0]}])
        }),
        "wide-object-equality" => ("$[?@.a==@.b]".to_string(), {
            let o: Value = Value::Object((0..d * 4).map(|i| (format!("k{}", i), json!([i]))).collect());
            json!([{"a": o.clone(), "b": o}])
        }),
        "long-string-comparison" => ("$[?@.a==@.b||@.a<@.b||@.a>='a']".to_string(), json!([{"a": "a".repeat(d * 16), "b": format!("{}b", "a".repeat(d * 16))}])),
        "wide-array-wildcard" => ("$[*]".to_string(), Value::Array((0..d * 16).map(|i| json!(i)).collect())),
        "wide-array-filter" => ("$[?@>1&&@<5||@==7]".to_string(), Value::Array((0..d * 16).map(|i| json!(i % 10)).collect())),
        "wide-object-descendant" => ("$..[?@.a]".to_string(), Value::Object((0..d * 4).map(|i| (format!("k{}", i), json!({"a": i}))).collect())),
        "long-name" => (format!("$['{}']", "n".repeat(d * 16)), json!({"n": 1})),
        "long-string-literal-regex" => (format!("$[?search(@,'{}')]", "a".repeat(d)), json!(["a".repeat(d + 1), "b"])),
        // every segment multiplies the nodelist by 2 up to 2^14 nodes, then keeps it
        "many-segments-wildcard-fanout" => (format!("${}", "[0,1]".repeat(d.min(14))), {
            let mut v = json!(1);
            for _ in 0..d.min(14) {
                v = json!([v.clone(), v]);
            }
            v
        }),
        "exp:match-over-filter" => (format!("$[?{}]", rec_nest(d, "@.a", &|x| format!("match(value(@[?{}]),'a')", x))), small),
        "exp:search-over-filter-negated" => (format!("$[?{}]", rec_nest(d, "@.a", &|x| format!("!search(value(@.*[?{}]),'a')", x))), nested_array(2 * d + 4)),
        "exp:count-filter-gte" => (format!("$[?{}]", rec_nest(d, "count(@.*)>=1", &|x| format!("count(@.*[?{}])>=1", x))), nested_array(2 * d + 4)),
        "exp:count-filter-eq" => (format!("$[?{}]", rec_nest(d, "count(@.*)==1", &|x| format!("count(@.*[?{}])==1", x))), nested_array(2 * d + 4)),
        "exp:value-filter-lte" => (format!("$[?{}]", rec_nest(d, "@[0]<=1", &|x| format!("value(@.*[?{}])<=1||1<=value(@.*[?{}])", x, "@"))), nested_array(2 * d + 4)),
        "exp:length-value-filter-ne" => (format!("$[?{}]", rec_nest(d, "length(@)!=0", &|x| format!("length(value(@[?{}]))!=0", x))), nested_array(2 * d + 4)),
        "exp:nested-filter-tests" => (format!("$[?{}]", rec_nest(d, "@", &|x| format!("@[?{}]&&!@.zz", x))), nested_array(2 * d + 4)),
        "exp:filter-with-or-and" => (format!("$[?{}]", rec_nest(d, "@", &|x| format!("(@[?{}]||@.zz)&&(@.zz||@)", x))), nested_array(2 * d + 4)),
        "exp:abs-query-tests" => (format!("$[?{}]", rec_nest(d, "$[0]", &|x| format!("$[?{}]", x))), nested_array(6)),
        _ => panic!("unknown construct {}", construct),
    }
}

/// child side of one rung: exit 0 = returned Ok or Err, 3 = panic; an abort shows up as a signal.
/// The document and its address map are built (and leaked) on a thread with a 2 GiB stack so that only
/// the code under test runs on the 8 MiB stack whose exhaustion is being observed.
pub fn rung_child(construct: &str, d: usize) -> i32 {
    let construct = construct.to_string();
    let outer = std::thread::Builder::new()
        .stack_size(2 << 30)
        .spawn(move || {
            let (q, doc) = rung(&construct, d);
            let am = AddrMap::new(&doc);
            let r = std::thread::scope(|sc| {
                let h = std::thread::Builder::new()
                    .stack_size(8 << 20)
                    .spawn_scoped(sc, || match imp::parse(&q) {
                        Err(p) => {
                            println!("PANIC in parse: {}", p);
                            3
                        }
                        Ok(Err(e)) => {
                            println!("parse Err: {}", e.chars().take(80).collect::<String>());
                            0
                        }
                        Ok(Ok(jq)) => {
                            let r = match imp::run_parsed(&jq, &doc, &am) {
                                ImplOut::Ok(v) => {
                                    println!("Ok({} nodes)", v.len());
                                    0
                                }
                                ImplOut::Err(e) => {
                                    println!("eval Err: {}", e.chars().take(80).collect::<String>());
                                    4
                                }
                                ImplOut::Panic(p) => {
                                    println!("PANIC in evaluation: {}", p);
                                    3
                                }
                            };
                            // dropping a deeply nested parsed query recurses; the process ends anyway
                            std::mem::forget(jq);
                            r
                        }
                    })
                    .unwrap();
                h.join().unwrap_or(3)
            });
            std::mem::forget(doc);
            std::mem::forget(am);
            r
        })
        .unwrap();
    outer.join().unwrap_or(3)
}

#[derive(Debug, Clone, PartialEq)]
pub enum RungResult {
    Ok(String),
    Panic(String),
    EvalErr(String),
    Abort(String),
    Timeout,
}

pub fn run_rung(construct: &str, d: usize, horizon: Duration) -> RungResult {
    run_rung_with(construct, d, horizon, false)
}

/// `debug_build`: run the rung with the debug build of the harness and of jsonpath-rust (JPMC_DEV_BIN)
/// CPU time (user + system) a process has used so far, from /proc/<pid>/stat (clock ticks of 10 ms)
fn child_cpu(pid: u32) -> Option<Duration> {
    let st = std::fs::read_to_string(format!("/proc/{}/stat", pid)).ok()?;
    let rest = &st[st.rfind(')')? + 1..];
    let f: Vec<&str> = rest.split_whitespace().collect();
    // after the command: state is field 0, utime field 11, stime field 12
    let ticks = f.get(11)?.parse::<u64>().ok()? + f.get(12)?.parse::<u64>().ok()?;
    Some(Duration::from_millis(ticks * 10))
}

pub fn run_rung_with(construct: &str, d: usize, horizon: Duration, debug_build: bool) -> RungResult {
    let exe = if debug_build { std::path::PathBuf::from(std::env::var("JPMC_DEV_BIN").expect("JPMC_DEV_BIN")) } else { std::env::current_exe().expect("current exe") };
    let mut child = Command::new(exe)
        .args(["ladder", construct, &d.to_string()])
        .stdout(Stdio::piped())
        .stderr(Stdio::piped())
        .spawn()
        .expect("spawn ladder child");
    let t0 = Instant::now();
    loop {
        match child.try_wait() {
            Ok(Some(st)) => {
                let mut out = String::new();
                if let Some(mut o) = child.stdout.take() {
                    let _ = o.read_to_string(&mut out);
                }
                let mut err = String::new();
                if let Some(mut e) = child.stderr.take() {
                    let _ = e.read_to_string(&mut err);
                }
                let out = out.trim().to_string();
                return match st.code() {
                    Some(0) => RungResult::Ok(out),
                    Some(3) => RungResult::Panic(out),
                    Some(4) => RungResult::EvalErr(out),
                    other => RungResult::Abort(format!("status {:?}: {}", other.map(|c| c.to_string()).unwrap_or_else(|| format!("{}", st)), err.lines().find(|l| l.contains("overflow") || l.contains("fatal")).unwrap_or("").trim())),
                };
            }
            Ok(None) => {
                // the horizon is CPU time of the child (a busy machine must not turn slow into "hangs"); a child that
                // neither finishes nor computes (blocked) is given up after eight horizons of wall-clock time
                let el = t0.elapsed();
                if el > horizon && (child_cpu(child.id()).map_or(true, |c| c > horizon) || el > horizon * 8) {
                    let _ = child.kill();
                    let _ = child.wait();
                    return RungResult::Timeout;
                }
                std::thread::sleep(Duration::from_millis(5));
            }
            Err(_) => return RungResult::Abort("wait failed".into()),
        }
    }
}

pub fn ladder(run: &Run) -> Acc {
    // document-depth rungs stop at 8192: the implementation's path strings make memory quadratic in depth
    let mut jobs: Vec<(&str, usize)> = vec![];
    for c in CONSTRUCTS {
        let mut depths = vec![8, 64, 512, 4096];
        if run.thorough() {
            depths.push(if c.contains("nested-arrays") || c.contains("nested-objects") { 8192 } else { 32768 });
        }
        for d in depths {
            jobs.push((c, d));
        }
    }
    for c in EXP_CONSTRUCTS {
        for d in [8usize, 16, 24, 32] {
            // beyond the first rung a known finding fails at, nothing new can be learnt (and each costs the horizon)
            let from = run.findings.allowed("C08", &format!("ladder:{}", c)).and_then(|id| run.findings.param(id, "from_depth")).unwrap_or(u64::MAX);
            if d as u64 > from {
                continue;
            }
            jobs.push((c, d));
        }
    }
    let pool = rayon::ThreadPoolBuilder::new().num_threads(4).build().unwrap();
    let horizon = |c: &str| if c.starts_with("exp:") { Duration::from_secs(15) } else { Duration::from_secs(120) };
    let mut results: Vec<((&str, usize), RungResult)> = pool.install(|| jobs.par_iter().map(|(c, d)| ((*c, *d), run_rung(c, *d, horizon(c)))).collect());
    let mut acc = Acc::new();
    // size ladders once more with a debug build (thorough tier): what must not grow with the width is the stack
    if std::env::var("JPMC_DEV_BIN").is_ok() {
        let dev_jobs: Vec<(&str, usize)> = jobs.iter().filter(|(c, d)| (c.starts_with("wide-") || c.starts_with("long-")) && *d <= 4096).cloned().collect();
        let dev: Vec<((&str, usize), RungResult)> = pool.install(|| dev_jobs.par_iter().map(|(c, d)| ((*c, *d), run_rung_with(c, *d, Duration::from_secs(300), true))).collect());
        for ((c, d), r) in dev {
            acc.evals += 1;
            acc.bump("ladder_rungs_debug_build", 1);
            acc.outcome(|| format!("{} @ {} (debug build): {:?}", c, d, r));
            if !matches!(r, RungResult::Ok(_)) {
                acc.viol(
                    format!("{} of size {} x16 with a debug build of jsonpath-rust: {:?}", c, d, r),
                    json!({"kind": "ladder", "class": format!("ladder {} (debug build)", c), "construct": c, "depth": d, "debug_build": true}),
                );
            }
        }
    }
    results.retain(|_| true);
    for ((c, d), r) in results {
        acc.evals += 1;
        acc.nontrivial += 1;
        acc.bump("ladder_rungs", 1);
        acc.outcome(|| format!("{} @ {} : {:?}", c, d, r));
        match &r {
            RungResult::Ok(s) => {
                acc.sample(|| json!({"construct": c, "depth": d, "result": s}));
            }
            other => {
                // a known finding names the construct and the shallowest rung at which it fails
                let key = format!("ladder:{}", c);
                if let Some(id) = run.findings.allowed("C08", &key) {
                    let from = run.findings.param(id, "from_depth").unwrap_or(u64::MAX);
                    if d as u64 >= from {
                        let id = id.to_string();
                        acc.known(&id, || format!("{} nested {} deep: {:?}", c, d, other));
                        continue;
                    }
                }
                acc.viol(
                    format!("{} nested {} deep (query of {} bytes): {:?}", c, d, rung(c, d).0.len(), other),
                    json!({"kind": "ladder", "class": format!("ladder {}", c), "construct": c, "depth": d}),
                );
            }
        }
    }
    acc
}

pub fn replay_ladder(case: &Value, run: &Run) -> Acc {
    let mut acc = Acc::new();
    let c = case["construct"].as_str().unwrap_or("parens").to_string();
    let d = case["depth"].as_u64().unwrap_or(8) as usize;
    let dev = case["debug_build"].as_bool().unwrap_or(false);
    if dev && std::env::var("JPMC_DEV_BIN").is_err() {
        eprintln!("this case needs the debug build (use ./run replay)");
        std::process::exit(2);
    }
    let r = run_rung_with(&c, d, if c.starts_with("exp:") { Duration::from_secs(15) } else if dev { Duration::from_secs(300) } else { Duration::from_secs(60) }, dev);
    println!("construct {} depth {} : {:?}", c, d, r);
    let _ = run;
    if !matches!(r, RungResult::Ok(_)) {
        acc.viol(format!("{} nested {} deep: {:?}", c, d, r), case.clone());
    }
    acc
}

pub fn replay_built(case: &Value, _run: &Run) -> Acc {
    let mut acc = Acc::new();
    let doc = &case["doc"];
    let am = AddrMap::new(doc);
    let sel = if case["kind"] == "built-index" {
        Selector::Index(case["index"].as_i64().unwrap_or(0))
    } else {
        let s = &case["slice"];
        Selector::Slice(s[0].as_i64(), s[1].as_i64(), s[2].as_i64())
    };
    let jq = JpQuery::new(vec![Segment::Selector(sel.clone())]);
    let o = imp::run_parsed(&jq, doc, &am);
    println!("built selector {:?} on {} : {:?}", sel, doc, o);
    if !matches!(o, ImplOut::Ok(_)) {
        acc.viol(format!("programmatically built {:?} on {}: {}", sel, doc, o.short()), case.clone());
    }
    acc
}
