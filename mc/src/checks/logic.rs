//! C05: filter logic (Boolean structure, existence tests) and @ / $ scoping.
//!
//! Part 1: every formula over atoms P, Q, R with up to k binary connectives, every placement of `!`, in two
//! renderings (minimal parentheses / fully parenthesised), evaluated on one document whose children are all
//! valuations of (p, q, r). Two oracles: the reference model, and - independently of it - Boolean algebra
//! over the kept-sets the implementation reports for the atoms alone.
//! Part 2: the scoping family (nested filters, `$` inside filters, `@` at several nesting levels).

use super::common::{packed, packed_on, DocCtx};
use crate::acc::{Acc, Run};
use crate::imp;
use crate::model::parse::rfc_parse;
use rayon::prelude::*;
use serde_json::{json, Map, Value};

#[derive(Clone, Debug)]
pub enum F {
    Atom(usize),
    Not(Box<F>),
    And(Box<F>, Box<F>),
    Or(Box<F>, Box<F>),
}

impl F {
    fn eval(&self, atoms: &[Vec<bool>; 3], i: usize) -> bool {
        match self {
            F::Atom(k) => atoms[*k][i],
            F::Not(x) => !x.eval(atoms, i),
            F::And(a, b) => a.eval(atoms, i) && b.eval(atoms, i),
            F::Or(a, b) => a.eval(atoms, i) || b.eval(atoms, i),
        }
    }
    /// precedence level: 0 = or, 1 = and, 2 = atom / negation / parenthesised
    fn level(&self) -> u8 {
        match self {
            F::Or(..) => 0,
            F::And(..) => 1,
            _ => 2,
        }
    }
    fn render(&self, atoms: &[String; 3], full: bool, sp: &str, out: &mut String) {
        let sub = |x: &F, min: u8, out: &mut String| {
            if full && x.level() < 2 || x.level() < min {
                out.push('(');
                x.render(atoms, full, sp, out);
                out.push(')');
            } else {
                x.render(atoms, full, sp, out);
            }
        };
        match self {
            F::Atom(k) => out.push_str(&atoms[*k]),
            F::Not(x) => {
                out.push('!');
                match **x {
                    // `!` applies to a test or a parenthesised expression: comparisons and `!` need parentheses
                    F::Atom(k) if is_test(&atoms[k]) => out.push_str(&atoms[k]),
                    _ => {
                        out.push('(');
                        x.render(atoms, full, sp, out);
                        out.push(')');
                    }
                }
            }
            F::And(a, b) => {
                sub(a, 1, out);
                out.push_str(sp);
                out.push_str("&&");
                out.push_str(sp);
                sub(b, 1, out);
            }
            F::Or(a, b) => {
                sub(a, 0, out);
                out.push_str(sp);
                out.push_str("||");
                out.push_str(sp);
                sub(b, 0, out);
            }
        }
    }
}

/// doubles every parenthesis that delimits a logical group (not those of function calls)
fn double_parens(s: &str) -> String {
    let cs: Vec<char> = s.chars().collect();
    let mut out = String::new();
    let mut stack: Vec<bool> = vec![];
    for (i, c) in cs.iter().enumerate() {
        match c {
            '(' => {
                let call = i > 0 && (cs[i - 1].is_ascii_alphanumeric() || cs[i - 1] == '_');
                stack.push(call);
                out.push('(');
                if !call {
                    out.push('(');
                }
            }
            ')' => {
                let call = stack.pop().unwrap_or(true);
                out.push(')');
                if !call {
                    out.push(')');
                }
            }
            c => out.push(*c),
        }
    }
    out
}

fn is_test(atom: &str) -> bool {
    !(atom.contains("==") || atom.contains('<') || atom.contains('>') || atom.contains("!="))
}

/// all formulas with exactly k binary connectives; `neg` = also every placement of `!`
fn trees(k: usize, memo: &mut Vec<Option<Vec<F>>>) -> Vec<F> {
    if let Some(v) = &memo[k] {
        return v.clone();
    }
    let mut base: Vec<F> = vec![];
    if k == 0 {
        for a in 0..3 {
            base.push(F::Atom(a));
        }
    } else {
        for left in 0..k {
            let l = trees(left, memo);
            let r = trees(k - 1 - left, memo);
            for a in &l {
                for b in &r {
                    base.push(F::And(Box::new(a.clone()), Box::new(b.clone())));
                    base.push(F::Or(Box::new(a.clone()), Box::new(b.clone())));
                }
            }
        }
    }
    let mut out = vec![];
    for f in base {
        out.push(F::Not(Box::new(f.clone())));
        out.push(f);
    }
    memo[k] = Some(out.clone());
    out
}

fn pvals() -> Vec<Option<Value>> {
    vec![None, Some(json!(null)), Some(json!(false)), Some(json!(0)), Some(json!("")), Some(json!([])), Some(json!({})), Some(json!(1))]
}

fn valuations(thorough: bool) -> Vec<Value> {
    valuations_named(thorough, ["p", "q", "r"])
}

fn valuations_named(thorough: bool, names: [&str; 3]) -> Vec<Value> {
    let mut pv = pvals();
    if !thorough {
        // absent, null, "", [], 1
        pv = vec![pv[0].clone(), pv[1].clone(), pv[4].clone(), pv[5].clone(), pv[7].clone()];
    }
    let mut out = vec![];
    for p in &pv {
        for q in &pv {
            for r in &pv {
                let mut m = Map::new();
                if let Some(p) = p {
                    m.insert(names[0].into(), p.clone());
                }
                if let Some(q) = q {
                    m.insert(names[1].into(), q.clone());
                }
                if let Some(r) = r {
                    m.insert(names[2].into(), r.clone());
                }
                out.push(Value::Object(m));
            }
        }
    }
    out
}

fn wrap_arr(v: Vec<Value>) -> Value {
    Value::Array(v)
}
fn wrap_obj(v: Vec<Value>) -> Value {
    Value::Object(v.into_iter().enumerate().map(|(i, x)| (format!("c{}", i), x)).collect())
}

/// kept child indices of `$[?expr]` on the packed document, as observed
fn observe(q: &str, doc: &Value, dc: &DocCtx) -> Option<Vec<bool>> {
    let n = match doc {
        Value::Array(a) => a.len(),
        Value::Object(m) => m.len(),
        _ => 0,
    };
    match imp::run_with_path(q, doc, &dc.am) {
        imp::ImplOut::Ok(v) => to_bits(&v.iter().map(|x| x.0).collect::<Vec<_>>(), n, dc),
        _ => None,
    }
}

/// node ids -> kept-bit per child; None unless the ids are children of the root in original order without duplicates
fn to_bits(ids: &[u32], n: usize, dc: &DocCtx) -> Option<Vec<bool>> {
    {
        {
            let mut b = vec![false; n];
            let mut last: i64 = -1;
            for id in ids {
                let id = *id;
                if id == imp::FABRICATED {
                    return None;
                }
                let loc = dc.am.loc(id);
                if loc.len() != 1 {
                    return None;
                }
                let idx = match &loc[0] {
                    crate::model::eval::Step::Index(i) => *i,
                    crate::model::eval::Step::Name(nm) => nm[1..].parse::<usize>().ok()?,
                };
                // original order, no duplicates
                if (idx as i64) <= last {
                    return None;
                }
                last = idx as i64;
                b[idx] = true;
            }
            Some(b)
        }
    }
}

/// `small_full`: only the formulas with at most one connective (and the negation extras), on all 8^3 valuations;
/// otherwise all formulas up to k_max on the tier's valuation universe
fn boolean_part(run: &Run, k_max: usize, small_full: bool, full_vals: bool) -> Acc {
    let cells_plain = valuations(full_vals);
    // members whose names need escaping in a bracketed selector: a/b (spelled with the optional escape of /), a backslash, a space
    let cells_odd = valuations_named(full_vals, ["a/b", "\\", " "]);
    let bs = '\\';
    let atom_sets: Vec<[String; 3]> = vec![
        ["@.p".into(), "@.q".into(), "@.r".into()],
        ["@.p==1".into(), "@.q!=0".into(), "@.r==null".into()],
        ["@.p".into(), "@.q==1".into(), "match(@.r,'')".into()],
        ["@['p']".into(), "length(@.q)==0".into(), "$.c0".into()],
        [format!("@['a{}/b']", bs), format!("@['{}{}']==1", bs, bs), "@[\" \"]".into()],
        // atoms whose texts differ only by punctuation (anything keyed on a lossy rendering of an operand collides)
        ["@.a.b".into(), "@.ab".into(), "@['a','b']".into()],
        ["@.a[0]".into(), "@.a0".into(), "@.a[0:1]".into()],
        // ordering comparisons whose operands can be Nothing or non-numbers: `!(x < y)` is not `x >= y`
        ["length(@.p)<2".into(), "count(@.q)>=1".into(), "@.r>0".into()],
        ["length(@.p)>=length(@.q)".into(), "1<=length(@.r)".into(), "value(@.q)<=1".into()],
        // comparisons over the same operands that look like each other's complement but are not (both are false when
        // an operand is nothing or not comparable): `p<1 || p>=1` is not a tautology
        ["@.p<1".into(), "@.p>=1".into(), "@.p!=1".into()],
        ["@.p>@.q".into(), "@.p<=@.q".into(), "@.p==@.q".into()],
        // function tests that are false for a reason of their own (a pattern that is no regular expression, a
        // non-string subject, a pattern taken from a non-string): their negation is true
        ["match(@.p,'[')".into(), "search(@.q,'*a')".into(), "match(@.r,@.p)".into()],
        ["search(@.p,'')".into(), "match(@.q,'.*')".into(), "search(@.r,'a{2,1}')".into()],
        // equalities of one operand with several literals, numbers in another spelling than the document's
        ["@.p==1.0".into(), "@.p==0.0".into(), "@.p==''".into()],
    ];
    let cells_collide: Vec<Value> = {
        let mut v = vec![];
        for a in [None, Some(json!({"b": 1})), Some(json!({"b": null})), Some(json!([7])), Some(json!([])), Some(json!(1))] {
            for ab in [None, Some(json!(1)), Some(json!(null))] {
                for a0 in [None, Some(json!(1))] {
                    for b in [None, Some(json!(false))] {
                        let mut m = Map::new();
                        if let Some(x) = &a {
                            m.insert("a".into(), x.clone());
                        }
                        if let Some(x) = &ab {
                            m.insert("ab".into(), x.clone());
                        }
                        if let Some(x) = &a0 {
                            m.insert("a0".into(), x.clone());
                        }
                        if let Some(x) = &b {
                            m.insert("b".into(), x.clone());
                        }
                        v.push(Value::Object(m));
                    }
                }
            }
        }
        v
    };
    let mut memo = vec![None; k_max + 1];
    let mut forms: Vec<F> = vec![];
    for k in 0..=(if small_full { 1.min(k_max) } else { k_max }) {
        forms.extend(trees(k, &mut memo));
    }
    // double and triple negation, and negations nested under a connective (formulas with at most one connective)
    {
        let nn = |f: &F| F::Not(Box::new(F::Not(Box::new(f.clone()))));
        let small: Vec<F> = (0..=1.min(k_max)).flat_map(|k| trees(k, &mut memo)).collect();
        let mut extra = vec![];
        for f in &small {
            extra.push(nn(f));
            extra.push(F::Not(Box::new(nn(f))));
            for a in 0..3 {
                extra.push(F::And(Box::new(nn(f)), Box::new(F::Atom(a))));
                extra.push(F::Or(Box::new(F::Atom(a)), Box::new(nn(f))));
                extra.push(F::Not(Box::new(F::And(Box::new(F::Atom(a)), Box::new(nn(f))))));
            }
        }
        if k_max >= 2 && !small_full {
            for (i, f) in trees(2, &mut memo).iter().enumerate() {
                if i % 4 == 0 {
                    extra.push(nn(f));
                }
            }
        }
        forms.extend(extra);
    }
    // the two ordering-comparison sets run on the array-shaped container only (quick-tier budget)
    let jobs: Vec<(usize, bool)> = (0..atom_sets.len()).flat_map(|a| if (7..14).contains(&a) && !full_vals { vec![(a, false)] } else { vec![(a, false), (a, true)] }).collect();
    let mut total = Acc::new();
    for (ai, as_obj) in jobs {
        let atoms = &atom_sets[ai];
        let cells = if ai == 4 { cells_odd.clone() } else if ai == 5 || ai == 6 { cells_collide.clone() } else { cells_plain.clone() };
        // `$.c0` only exists in the object-shaped document; in the array-shaped one it is an absent member: both fine
        let wrap: &(dyn Fn(Vec<Value>) -> Value + Sync) = if as_obj { &wrap_obj } else { &wrap_arr };
        let doc = wrap(cells.clone());
        let dc = DocCtx::new(&doc);
        // atoms alone, as observed
        let mut obs: Vec<Vec<bool>> = vec![];
        let mut ok = true;
        for a in atoms.iter() {
            let q = format!("$[?{}]", a);
            match observe(&q, &doc, &dc) {
                Some(b) => obs.push(b),
                None => {
                    total.viol(format!("atom query {} does not return a sub-sequence of the children", q), json!({"kind": "query", "class": "C05 atom", "query": q, "doc": doc}));
                    ok = false;
                }
            }
        }
        if !ok {
            continue;
        }
        let obs: [Vec<bool>; 3] = [obs[0].clone(), obs[1].clone(), obs[2].clone()];
        let acc = forms
            .par_iter()
            .map(|f| {
                let mut acc = Acc::new();
                for (full, sp) in [(false, ""), (true, ""), (false, " "), (true, "((")] {
                    let mut e = String::new();
                    if sp == "((" {
                        // every parenthesis of the fully parenthesised rendering doubled
                        let mut t = String::new();
                        f.render(atoms, true, "", &mut t);
                        e = double_parens(&t);
                    } else {
                        f.render(atoms, full, sp, &mut e);
                    }
                    let sp = if sp == "((" { "" } else { sp };
                    let q = if sp.is_empty() { format!("$[?{}]", e) } else { format!("$[? {} ]", e) };
                    let ast = match rfc_parse(&q) {
                        Ok(a) => a.0,
                        Err(er) => panic!("C05 formula {} must be valid: {:?}", q, er),
                    };
                    // oracle 1: the reference model
                    let kept = packed_on(run, &mut acc, &q, &ast, &cells, wrap, "formula vs model", &dc);
                    // oracle 2: Boolean algebra over the observed atom sets
                    if let Some(ids) = kept {
                        if let Some(b) = to_bits(&ids, cells.len(), &dc) {
                            let mut first_bad = None;
                            let mut nkept = 0;
                            for i in 0..cells.len() {
                                let want = f.eval(&obs, i);
                                if want {
                                    nkept += 1;
                                }
                                if want != b[i] && first_bad.is_none() {
                                    first_bad = Some(i);
                                }
                            }
                            acc.bump("boolean_law_cells", cells.len() as u64);
                            acc.nontrivial += nkept;
                            if let Some(i) = first_bad {
                                let single = wrap(vec![cells[i].clone()]);
                                acc.viol(
                                    format!(
                                        "{} : child {} ({}) is {} although Boolean algebra over the atoms' own results ({}={}, {}={}, {}={}) gives {}",
                                        q,
                                        i,
                                        cells[i],
                                        if b[i] { "kept" } else { "dropped" },
                                        atoms[0],
                                        obs[0][i],
                                        atoms[1],
                                        obs[1][i],
                                        atoms[2],
                                        obs[2][i],
                                        f.eval(&obs, i)
                                    ),
                                    json!({"kind": "query", "class": "formula vs Boolean algebra", "query": q, "doc": single}),
                                );
                            } else {
                                acc.sample(|| json!({"query": q, "children": cells.len(), "kept": nkept}));
                            }
                        } else {
                            acc.viol(format!("{} does not return a sub-sequence of the children in original order", q), json!({"kind": "query", "class": "formula order", "query": q, "doc": doc}));
                        }
                    }
                }
                acc
            })
            .reduce(Acc::new, Acc::merge);
        total = total.merge(acc);
        total.bump("atom_assignments_x_container_kinds", 1);
    }
    total.bump("formulas", forms.len() as u64);
    total
}

/// Part 3: `$` denotes the root of the document being queried, also when one parsed query is kept and the
/// document held by one variable is replaced or updated in place between evaluations.
fn kept_scoping_part(run: &Run) -> Acc {
    use super::common::{check_obs, Mode, Outcome};
    let items: Vec<Value> = vec![json!({"m": 1}), json!({"m": 2}), json!({"k": [{"p": 1}, {"p": 2}], "m": 1}), json!({"k": {"a": {"p": 1}}, "m": 2}), json!([{"p": 1}]), json!(1)];
    let queries: Vec<&str> = vec![
        "$.x[?$.u]",
        "$.x[?!$.u]",
        "$.x[?$.u&&@.m]",
        "$.x[?!$.u||@.k]",
        "$.x[?$.u==1]",
        "$.x[?@.m==$.u]",
        "$.x[?@.k[?$.u]]",
        "$.x[?@.k[?!$.u&&@.p]]",
        "$.x[?@.k[?@.p==$.u]]",
        "$.x[?$.x[?@.m==$.u]]",
        "$.x[?count($.u)==1]",
        "$.x[?length($.u)==1]",
        "$.x[?value($.u)==@.m]",
        "$.x[?$.u[0]]",
        "$.x[?$..p]",
        "$..[?$.u]",
        "$.x[*].k[?$.u]",
    ];
    let us: Vec<Option<Value>> = vec![None, Some(json!(1)), Some(json!(2)), Some(json!(null)), Some(json!([1])), Some(json!("a"))];
    let wrap = |u: &Option<Value>| {
        let mut m = Map::new();
        if let Some(u) = u {
            m.insert("u".into(), u.clone());
        }
        m.insert("x".into(), Value::Array(items.clone()));
        Value::Object(m)
    };
    queries
        .par_iter()
        .map(|q| {
            let mut acc = Acc::new();
            let ast = rfc_parse(q).unwrap_or_else(|e| panic!("C05 scoping query {} must be valid: {:?}", q, e)).0;
            let kept = match crate::imp::parse(q) {
                Ok(Ok(jq)) => jq,
                _ => {
                    acc.bump("skipped_rejected_by_parser", 1);
                    return acc;
                }
            };
            // states: the distinct contents of the variable (root values x how they got there)
            acc.states += 2 * us.len() as u64;
            // every ordered pair (and so every history of two root values) occurs in the walk over us x us; the
            // document is replaced as a whole (mode 0) or its member `u` is updated in place (mode 1)
            let mut slot = Value::Null;
            let mut prev = Value::Null;
            for mode in 0..2 {
                for a in &us {
                    for b in &us {
                        for u in [a, b] {
                            if mode == 0 || !slot.is_object() {
                                slot.clone_from(&wrap(u));
                            } else {
                                let m = slot.as_object_mut().unwrap();
                                match u {
                                    Some(v) => {
                                        // keep the member order of a freshly built document: `u` first
                                        if m.contains_key("u") {
                                            m.insert("u".into(), v.clone());
                                        } else {
                                            let x = m.remove("x").unwrap();
                                            m.insert("u".into(), v.clone());
                                            m.insert("x".into(), x);
                                        }
                                    }
                                    None => {
                                        m.shift_remove("u");
                                    }
                                }
                            }
                            let dc = DocCtx::new(&slot);
                            let out = crate::imp::run_parsed(&kept, &slot, &dc.am);
                            let mut tmp = Acc::new();
                            acc.transitions += 1;
                            match check_obs(run, &mut tmp, q, &ast, &dc, &out, Mode::Nodes, "scoping (kept parsed query)") {
                                Outcome::Violation => {
                                    acc.viol(
                                        format!("{} parsed once: on a variable that held {} before and holds {} now it returns {}; {}", q, prev, slot, out.short(), tmp.first_violation().unwrap_or_default()),
                                        json!({"kind": "kept-query", "class": "scoping (kept parsed query, document replaced or updated in place)", "query": q, "docs": [prev, slot]}),
                                    );
                                    return acc;
                                }
                                Outcome::Agree(k) => {
                                    acc.evals += 1;
                                    acc.nontrivial += k as u64;
                                }
                                _ => acc = acc.merge(tmp),
                            }
                            prev = slot.clone();
                        }
                    }
                }
            }
            acc
        })
        .reduce(Acc::new, Acc::merge)
}

fn scoping_part(run: &Run, thorough: bool) -> Acc {
    // inner objects
    let mut pv: Vec<Option<Value>> = vec![None, Some(json!(1)), Some(json!(2)), Some(json!(null)), Some(json!("")), Some(json!([])), Some(json!({})), Some(json!([1])), Some(json!([2, 1]))];
    if thorough {
        pv.push(Some(json!({"p": 1})));
        pv.push(Some(json!([[1]])));
    }
    let mut inner: Vec<Value> = pv
        .iter()
        .map(|p| {
            let mut m = Map::new();
            if let Some(p) = p {
                m.insert("p".into(), p.clone());
            }
            Value::Object(m)
        })
        .collect();
    inner.push(json!(1));
    let mut ks: Vec<Value> = vec![json!([]), json!({}), json!(1), json!("s")];
    for a in &inner {
        ks.push(json!([a]));
        ks.push(json!({ "a": a }));
        for b in &inner {
            ks.push(json!([a, b]));
            ks.push(json!({"a": a, "b": b}));
        }
    }
    // items: {"k": K, "m": 1}, {"m": 1}, and K itself
    let mut items: Vec<Value> = vec![json!({"m": 1}), json!({"m": 2})];
    for k in &ks {
        items.push(json!({"k": k, "m": 1}));
    }
    for k in &ks {
        items.push(k.clone());
    }
    let queries: Vec<&str> = vec![
        "$.x[?@.k[?@.p]]",
        "$.x[?@.k[?!@.p]]",
        "$.x[?@.k[?@.p==1]]",
        "$.x[?@.k[?@.p==$.u]]",
        "$.x[?@.k[?@.p!=$.u]]",
        "$.x[?@.k[?$.u]]",
        "$.x[?@.k[?@.p]&&@.m==$.u]",
        "$.x[?@.k[?@.p==1]||@.m==2]",
        "$.x[?@.k[?@.p[?@==1]]]",
        "$.x[?@.k[?@.p[?@==$.u]]]",
        "$.x[?@.k.*[?@==1]]",
        "$.x[?@.k[*].p[?@==$.u]]",
        "$.x[?@.k[?@.p].p]",
        "$.x[?@.k[?@.p][0]]",
        "$.x[?count(@.k[?@.p])==2]",
        "$.x[?count(@.k[?@.p==$.u])==1]",
        "$.x[?@.k[?count(@.p[?@==1])==1]]",
        "$.x[?@[?@.p]]",
        "$.x[?!@[?@.p]]",
        "$.x[?@[?@.p==$.u]]",
        "$.x[?@..[?@.p]]",
        "$.x[?count(@[?@.p])>0]",
        "$.x[?count(@[?@.p])==1]",
        "$.x[?@[?@.p].p]",
        "$.x[?@.k..[?@==1]]",
        "$.x[?$.u]",
        "$.x[?$.u==1]",
        "$.x[?$.zz]",
        "$.x[?!$.zz]",
        "$.x[?$.x[0]]",
        "$.x[?$.x[?@.k]]",
        "$.x[?$[?@[0]]]",
        "$.x[?count($[?@[0]])==1]",
        "$.x[?$..[?@.p==$.u]]",
        "$.x[?@.k..[?@.p]]",
        "$.x[?@..k[?@.p]]",
        "$.x[?@..[?@.p==1]]",
        "$.x[?count(@..[?@.p])>1]",
        "$.x[?@.k.*..[?@==1]]",
        "$.x[?$.x[?@.m==$.u]]",
        "$.x[?$]",
        "$.x[?@]",
        "$.x[?@.m==$.x[0].m]",
        "$.x[?@.k[?@.p==$.x[0].m]]",
        "$[?@[?@.k[?@.p==$.u]]]",
        "$..[?@.p==$.u]",
        "$.x[*].k[?@.p==$.u]",
        "$.x[*].k[?@.p].p",
    ];
    let us: Vec<Option<Value>> = vec![Some(json!(1)), Some(json!(2)), None];
    let jobs: Vec<(&str, &Option<Value>)> = queries.iter().flat_map(|q| us.iter().map(move |u| (*q, u))).collect();
    jobs.par_iter()
        .map(|(q, u)| {
            let mut acc = Acc::new();
            let ast = match rfc_parse(q) {
                Ok(a) => a.0,
                Err(e) => panic!("C05 scoping query {} must be valid: {:?}", q, e),
            };
            let wrap = |v: Vec<Value>| {
                let mut m = Map::new();
                if let Some(u) = u {
                    m.insert("u".into(), (*u).clone());
                }
                m.insert("x".into(), Value::Array(v));
                Value::Object(m)
            };
            if let Some(ids) = packed(run, &mut acc, q, &ast, &items, &wrap, "scoping") {
                acc.nontrivial += ids.len() as u64;
                acc.sample(|| json!({"query": q, "u": u, "items": items.len(), "selected": ids.len()}));
            }
            acc
        })
        .reduce(Acc::new, Acc::merge)
}

pub fn run(tier: &str) -> i32 {
    let run = Run::new("C05", tier);
    let k = if run.thorough() { 3 } else { 2 };
    // the largest formula set runs on 5 values per member (absent, null, "", [], 1); formulas one size smaller
    // (quick: up to one connective, thorough: up to two) see all 8 values
    let a = boolean_part(&run, k, false, false);
    let a2 = if run.thorough() { boolean_part(&run, 2, false, true) } else { boolean_part(&run, k, true, true) };
    let b = scoping_part(&run, run.thorough());
    let c = kept_scoping_part(&run);
    let acc = a.merge(a2).merge(b).merge(c);
    run.finish(
        acc,
        "part 1: one cell = (formula, rendering, child valuation): every formula over three atoms with up to k binary connectives and every placement of `!`, rendered with minimal parentheses, fully parenthesised and with blanks, decided for all valuations of (p,q,r) (5^3 for the largest formulas, 8^3 for the smaller ones) by one packed query, for 4 atom assignments x 2 container kinds; oracles: reference model, and Boolean algebra over the implementation's own results for the atoms; part 2: one cell = (scoping query, root value, item); part 3: one parsed query kept over every ordered pair of root values held by one variable (document replaced, or its member updated in place); non-trivial = kept children",
        &["atoms' own results are taken from the implementation (model-independent compositionality check); they are checked against the model as formulas of size 0"],
        true,
        json!({"max_connectives": k}),
    )
}
