//! Oracle self-test: the reference model is validated against the worked examples of RFC 9535
//! (independently of the implementation) every time a check starts. A failure is a machinery error (exit 2).

use crate::model::eval::{Ctx, EDev};
use crate::model::normpath::normpath;
use crate::model::parse::rfc_parse;
use serde_json::{json, Value};

fn paths(q: &str, doc: &Value) -> Result<Vec<String>, String> {
    let (ast, _) = rfc_parse(q).map_err(|e| format!("{:?}", e))?;
    let ctx = Ctx { root: doc, dev: EDev::default() };
    let n = ctx.eval_query(&ast).map_err(|e| format!("{:?}", e))?;
    Ok(n.iter().map(|x| normpath(&x.loc)).collect())
}

struct T {
    fails: Vec<String>,
    n: usize,
}

impl T {
    fn eval(&mut self, doc: &Value, q: &str, exp: &[&str]) {
        self.n += 1;
        match paths(q, doc) {
            Ok(p) => {
                if p.iter().map(|s| s.as_str()).collect::<Vec<_>>() != exp {
                    self.fails.push(format!("{} on {}: model gives {:?}, RFC says {:?}", q, doc, p, exp));
                }
            }
            Err(e) => self.fails.push(format!("{}: {}", q, e)),
        }
    }
    fn valid(&mut self, q: &str, exp: bool) {
        self.n += 1;
        let got = rfc_parse(q).is_ok();
        if got != exp {
            self.fails.push(format!("recogniser says valid={} for {:?}, RFC says {}", got, q, exp));
        }
    }
    fn cmp(&mut self, doc: &Value, c: &str, exp: bool) {
        // a filter whose expression does not mention `@` keeps all children or none
        let q = format!("$[?{}]", c);
        let n = doc.as_object().map(|m| m.len()).unwrap_or(0);
        self.n += 1;
        match paths(&q, doc) {
            Ok(p) => {
                if (p.len() == n) != exp || (p.len() != n && !p.is_empty()) {
                    self.fails.push(format!("comparison {} : model gives {} of {} children, RFC says {}", c, p.len(), n, exp));
                }
            }
            Err(e) => self.fails.push(format!("{}: {}", q, e)),
        }
    }
}

pub fn run(verbose: bool) -> i32 {
    let mut t = T { fails: vec![], n: 0 };
    let book = crate::gen::docs::bookstore();
    // RFC 9535 section 1.5
    let b = |i: usize| format!("$['store']['book'][{}]", i);
    let b0 = b(0);
    let b1 = b(1);
    let b2 = b(2);
    let b3 = b(3);
    t.eval(&book, "$.store.book[*].author", &[&format!("{}['author']", b0), &format!("{}['author']", b1), &format!("{}['author']", b2), &format!("{}['author']", b3)]);
    t.eval(&book, "$..author", &[&format!("{}['author']", b0), &format!("{}['author']", b1), &format!("{}['author']", b2), &format!("{}['author']", b3)]);
    t.eval(&book, "$.store.*", &["$['store']['book']", "$['store']['bicycle']"]);
    t.eval(
        &book,
        "$.store..price",
        &[&format!("{}['price']", b0), &format!("{}['price']", b1), &format!("{}['price']", b2), &format!("{}['price']", b3), "$['store']['bicycle']['price']"],
    );
    t.eval(&book, "$..book[2]", &[&b2]);
    t.eval(&book, "$..book[2].author", &[&format!("{}['author']", b2)]);
    t.eval(&book, "$..book[2].publisher", &[]);
    t.eval(&book, "$..book[-1]", &[&b3]);
    t.eval(&book, "$..book[0,1]", &[&b0, &b1]);
    t.eval(&book, "$..book[:2]", &[&b0, &b1]);
    t.eval(&book, "$..book[?@.isbn]", &[&b2, &b3]);
    t.eval(&book, "$..book[?@.price<10]", &[&b0, &b2]);
    t.n += 1;
    match paths("$..*", &book) {
        Ok(p) if p.len() == 27 => {}
        other => t.fails.push(format!("$..* on the bookstore must select 27 nodes: {:?}", other.map(|p| p.len()))),
    }
    // 2.2.3 / 2.3.1.3 name selector
    let d = json!({"o": {"j j": {"k.k": 3}}, "'": {"@": 2}});
    t.eval(&d, "$", &["$"]);
    t.eval(&d, "$.o['j j']", &["$['o']['j j']"]);
    t.eval(&d, "$.o['j j']['k.k']", &["$['o']['j j']['k.k']"]);
    t.eval(&d, "$.o[\"j j\"][\"k.k\"]", &["$['o']['j j']['k.k']"]);
    t.eval(&d, "$[\"'\"][\"@\"]", &["$['\\'']['@']"]);
    // 2.3.2.3 wildcard
    let d = json!({"o": {"j": 1, "k": 2}, "a": [5, 3]});
    t.eval(&d, "$[*]", &["$['o']", "$['a']"]);
    t.eval(&d, "$.o[*]", &["$['o']['j']", "$['o']['k']"]);
    t.eval(&d, "$.o[*, *]", &["$['o']['j']", "$['o']['k']", "$['o']['j']", "$['o']['k']"]);
    t.eval(&d, "$.a[*]", &["$['a'][0]", "$['a'][1]"]);
    // 2.3.3.3 index
    let d = json!(["a", "b"]);
    t.eval(&d, "$[1]", &["$[1]"]);
    t.eval(&d, "$[-2]", &["$[0]"]);
    // 2.3.4.3 slice
    let d = json!(["a", "b", "c", "d", "e", "f", "g"]);
    t.eval(&d, "$[1:3]", &["$[1]", "$[2]"]);
    t.eval(&d, "$[5:]", &["$[5]", "$[6]"]);
    t.eval(&d, "$[1:5:2]", &["$[1]", "$[3]"]);
    t.eval(&d, "$[5:1:-2]", &["$[5]", "$[3]"]);
    t.eval(&d, "$[::-1]", &["$[6]", "$[5]", "$[4]", "$[3]", "$[2]", "$[1]", "$[0]"]);
    // 2.5.1.3 child segment
    t.eval(&d, "$[0, 3]", &["$[0]", "$[3]"]);
    t.eval(&d, "$[0:2, 5]", &["$[0]", "$[1]", "$[5]"]);
    t.eval(&d, "$[0, 0]", &["$[0]", "$[0]"]);
    // 2.3.5.3 comparison table
    let d = json!({"obj": {"x": "y"}, "arr": [2, 3]});
    for (c, e) in [
        ("$.absent1 == $.absent2", true),
        ("$.absent1 <= $.absent2", true),
        ("$.absent == 'g'", false),
        ("$.absent1 != $.absent2", false),
        ("$.absent != 'g'", true),
        ("1 <= 2", true),
        ("1 > 2", false),
        ("13 == '13'", false),
        ("'a' <= 'b'", true),
        ("'a' > 'b'", false),
        ("$.obj == $.arr", false),
        ("$.obj != $.arr", true),
        ("$.obj == $.obj", true),
        ("$.obj != $.obj", false),
        ("$.arr == $.arr", true),
        ("$.arr != $.arr", false),
        ("$.obj == 17", false),
        ("$.obj != 17", true),
        ("$.obj <= $.arr", false),
        ("$.obj < $.arr", false),
        ("$.obj <= $.obj", true),
        ("$.arr <= $.arr", true),
        ("1 <= $.arr", false),
        ("1 >= $.arr", false),
        ("1 > $.arr", false),
        ("1 < $.arr", false),
        ("true <= true", true),
        ("true > true", false),
    ] {
        t.cmp(&d, c, e);
    }
    // 2.3.5.3 filter examples
    let d = json!({
        "a": [3, 5, 1, 2, 4, 6, {"b": "j"}, {"b": "k"}, {"b": {}}, {"b": "kilo"}],
        "o": {"p": 1, "q": 2, "r": 3, "s": 5, "t": {"u": 6}},
        "e": "f"
    });
    t.eval(&d, "$.a[?@.b == 'kilo']", &["$['a'][9]"]);
    t.eval(&d, "$.a[?(@.b == 'kilo')]", &["$['a'][9]"]);
    t.eval(&d, "$.a[?@>3.5]", &["$['a'][1]", "$['a'][4]", "$['a'][5]"]);
    t.eval(&d, "$.a[?@.b]", &["$['a'][6]", "$['a'][7]", "$['a'][8]", "$['a'][9]"]);
    t.eval(&d, "$[?@.*]", &["$['a']", "$['o']"]);
    t.eval(&d, "$[?@[?@.b]]", &["$['a']"]);
    t.eval(&d, "$.o[?@<3, ?@<3]", &["$['o']['p']", "$['o']['q']", "$['o']['p']", "$['o']['q']"]);
    t.eval(&d, "$.a[?@<2 || @.b == \"k\"]", &["$['a'][2]", "$['a'][7]"]);
    t.eval(&d, "$.a[?match(@.b, \"[jk]\")]", &["$['a'][6]", "$['a'][7]"]);
    t.eval(&d, "$.a[?search(@.b, \"[jk]\")]", &["$['a'][6]", "$['a'][7]", "$['a'][9]"]);
    t.eval(&d, "$.o[?@>1 && @<4]", &["$['o']['q']", "$['o']['r']"]);
    t.eval(&d, "$.o[?@.u || @.x]", &["$['o']['t']"]);
    t.eval(&d, "$.a[?@.b == $.x]", &["$['a'][0]", "$['a'][1]", "$['a'][2]", "$['a'][3]", "$['a'][4]", "$['a'][5]"]);
    t.eval(
        &d,
        "$.a[?@ == @]",
        &["$['a'][0]", "$['a'][1]", "$['a'][2]", "$['a'][3]", "$['a'][4]", "$['a'][5]", "$['a'][6]", "$['a'][7]", "$['a'][8]", "$['a'][9]"],
    );
    // 2.4.9 well-typedness
    for (q, e) in [
        ("$[?length(@) < 3]", true),
        ("$[?length(@.*) < 3]", false),
        ("$[?count(@.*) == 1]", true),
        ("$[?count(1) == 1]", false),
        ("$[?match(@.timezone, 'Europe/.*')]", true),
        ("$[?match(@.timezone, 'Europe/.*') == true]", false),
        ("$[?value(@..color) == \"red\"]", true),
        ("$[?value(@..color)]", false),
        ("$[?length(@.authors) >= 5]", true),
        ("$[?count(@.*.author) >= 5]", true),
        ("$[?match(@.date, \"1974-05-..\")]", true),
        ("$[?search(@.author, \"[BR]ob\")]", true),
    ] {
        t.valid(q, e);
    }
    // 2.5.2.3 descendant segment
    let d = json!({"o": {"j": 1, "k": 2}, "a": [5, 3, [{"j": 4}, {"k": 6}]]});
    t.eval(&d, "$..j", &["$['o']['j']", "$['a'][2][0]['j']"]);
    t.eval(&d, "$..[0]", &["$['a'][0]", "$['a'][2][0]"]);
    t.eval(
        &d,
        "$..[*]",
        &["$['o']", "$['a']", "$['o']['j']", "$['o']['k']", "$['a'][0]", "$['a'][1]", "$['a'][2]", "$['a'][2][0]", "$['a'][2][1]", "$['a'][2][0]['j']", "$['a'][2][1]['k']"],
    );
    t.eval(
        &d,
        "$..*",
        &["$['o']", "$['a']", "$['o']['j']", "$['o']['k']", "$['a'][0]", "$['a'][1]", "$['a'][2]", "$['a'][2][0]", "$['a'][2][1]", "$['a'][2][0]['j']", "$['a'][2][1]['k']"],
    );
    t.eval(&d, "$..o", &["$['o']"]);
    t.eval(&d, "$.o..[*, *]", &["$['o']['j']", "$['o']['k']", "$['o']['j']", "$['o']['k']"]);
    t.eval(&d, "$.a..[0, 1]", &["$['a'][0]", "$['a'][1]", "$['a'][2][0]", "$['a'][2][1]"]);
    // 2.6.1 null
    let d = json!({"a": null, "b": [null], "c": [{}], "null": 1});
    t.eval(&d, "$.a", &["$['a']"]);
    t.eval(&d, "$.a[0]", &[]);
    t.eval(&d, "$.a.d", &[]);
    t.eval(&d, "$.b[0]", &["$['b'][0]"]);
    t.eval(&d, "$.b[*]", &["$['b'][0]"]);
    t.eval(&d, "$.b[?@]", &["$['b'][0]"]);
    t.eval(&d, "$.b[?@==null]", &["$['b'][0]"]);
    t.eval(&d, "$.c[?@.d==null]", &[]);
    t.eval(&d, "$.null", &["$['null']"]);
    // 2.7.1 normalized paths
    let d = json!({"a": {"b": [0, 1]}, "\u{0b}": 1});
    t.eval(&d, "$.a", &["$['a']"]);
    t.eval(&d, "$.a.b[1:2]", &["$['a']['b'][1]"]);
    let q = format!("$[\"{}u000B\"]", '\\');
    t.eval(&d, &q, &[&format!("$['{}u000b']", '\\')]);
    let q = format!("$[\"{}u0061\"]", '\\');
    t.eval(&d, &q, &["$['a']"]);
    t.eval(&json!([1, 2, 3, 4, 5]), "$[-3]", &["$[2]"]);
    // syntax spot checks from the RFC text
    for (q, e) in [
        ("$", true),
        (" $", false),
        ("$ ", false),
        ("$.a", true),
        ("$ .a", true),
        ("$. a", false),
        ("$..a", true),
        ("$.. a", false),
        ("$[ 'a' , 1 ]", true),
        ("$[01]", false),
        ("$[-0]", false),
        ("$[9007199254740991]", true),
        ("$[9007199254740992]", false),
        ("$[1:2:3:4]", false),
        ("$[?@.a]", true),
        ("$[? @.a ]", true),
        ("$[?@.a==1]", true),
        ("$[?@.*==1]", false),
        ("$[?@..a==1]", false),
        ("$[?@[0:1]==1]", false),
        ("$[?1]", false),
        ("$[?(1)]", false),
        ("$[?!1]", false),
        ("$[?!(@.a)]", true),
        ("$[?!@.a]", true),
        ("$[?! @.a]", true),
        ("$[?@.a && @.b || @.c]", true),
        ("$[?@.a==1.5e+3]", true),
        ("$[?@.a==-0]", true),
        ("$[?@.a==01]", false),
        ("$[?@.a==1.]", false),
        ("$[?@.a==.5]", false),
        ("$[?@.a=='x']", true),
        ("$[?@.a==\"x\"]", true),
        ("$[?@.a==TRUE]", false),
        ("$[?@.a=1]", false),
        ("$[?@.a===1]", false),
        ("$[?length (@.a)==1]", false),
        ("$[?length(@.a)==1]", true),
        ("$[?length( @.a )==1]", true),
        ("$[?count(@.a,@.b)==1]", false),
        ("$[?@['a']==1]", true),
        ("$[?@[ 'a' ]==1]", false),
        ("$[?@ .a==1]", true),
        ("$.☺", true),
        ("$.1a", false),
        ("$.a1", true),
        ("$.-a", false),
        ("$['a'", false),
        ("$[]", false),
        ("$[,]", false),
        ("$[*]", true),
        ("$.*", true),
        ("$..*", true),
        ("$...a", false),
        ("$..", false),
        ("$.", false),
        ("$[?@.a==$]", true),
        ("$[?$]", true),
        ("$[?@]", true),
    ] {
        t.valid(q, e);
    }
    // regex matcher against the regex crate on a small grid (the full grid is part of C10)
    let pats = ["a", "a|b", "a*", "(a|b)*c", "[ab]+", "[^a]", "a.b", "^a", "a$", "a{2,3}", "a?b", "(ab)+", "\\.", "a|", ""];
    let subs = ["", "a", "b", "ab", "aa", "aab", "abc", "a.b", "c", "ba"];
    for p in pats {
        let re = match crate::model::regex_ref::parse(p) {
            Ok(r) => r,
            Err(e) => {
                t.fails.push(format!("regex_ref cannot parse {:?}: {:?}", p, e));
                continue;
            }
        };
        let full = regex::Regex::new(&format!("^(?:{})$", p)).unwrap();
        let part = regex::Regex::new(p).unwrap();
        for s in subs {
            t.n += 2;
            if crate::model::regex_ref::full_match(&re, s) != full.is_match(s) {
                t.fails.push(format!("regex_ref full_match({:?}, {:?}) disagrees with the regex crate", p, s));
            }
            if crate::model::regex_ref::search(&re, s) != part.is_match(s) {
                t.fails.push(format!("regex_ref search({:?}, {:?}) disagrees with the regex crate", p, s));
            }
        }
    }
    if verbose || !t.fails.is_empty() {
        eprintln!("oracle self-test: {} checks, {} failures", t.n, t.fails.len());
    }
    for f in &t.fails {
        eprintln!("  SELFTEST FAIL: {}", f);
    }
    if t.fails.is_empty() {
        0
    } else {
        2
    }
}
