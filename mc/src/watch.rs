//! Wall-clock horizon for single cases ("always terminates"): every worker thread publishes the case it is
//! executing; a watchdog thread reports the first case that exceeds the horizon as a violation and ends the
//! process (a hung evaluation cannot be unwound).

use std::cell::RefCell;
use std::sync::{Arc, Mutex};
use std::time::{Duration, Instant};

pub struct Slot {
    cur: Mutex<Option<(String, Instant)>>,
}

static SLOTS: Mutex<Vec<Arc<Slot>>> = Mutex::new(Vec::new());

thread_local! {
    static MY: RefCell<Option<Arc<Slot>>> = RefCell::new(None);
}

fn my_slot() -> Arc<Slot> {
    MY.with(|m| {
        let mut m = m.borrow_mut();
        if m.is_none() {
            let s = Arc::new(Slot { cur: Mutex::new(None) });
            SLOTS.lock().unwrap().push(s.clone());
            *m = Some(s);
        }
        m.as_ref().unwrap().clone()
    })
}

/// run `f` while the case text is published to the watchdog
pub fn guarded<T>(case: impl FnOnce() -> String, f: impl FnOnce() -> T) -> T {
    let s = my_slot();
    *s.cur.lock().unwrap() = Some((case(), Instant::now()));
    let r = f();
    *s.cur.lock().unwrap() = None;
    r
}

/// start the watchdog; `on_timeout(case_text)` must report the violation; the process then exits with 1
pub fn start(horizon: Duration, on_timeout: impl Fn(&str) + Send + 'static) {
    std::thread::spawn(move || loop {
        std::thread::sleep(Duration::from_millis(500));
        let slots: Vec<Arc<Slot>> = SLOTS.lock().unwrap().clone();
        for s in slots {
            let cur = s.cur.lock().unwrap().clone();
            if let Some((case, t0)) = cur {
                if t0.elapsed() > horizon {
                    on_timeout(&case);
                    std::process::exit(1);
                }
            }
        }
    });
}
