//! Wall-clock horizon for single cases ("always terminates"): every worker thread publishes the case it is
//! executing; a watchdog thread reports the first case that exceeds the horizon as a violation and ends the
//! process (a hung evaluation cannot be unwound).

use std::cell::RefCell;
use std::sync::{Arc, Mutex};
use std::time::{Duration, Instant};

pub struct Slot {
    cur: Mutex<Option<(String, Instant)>>,
}

static SLOTS: Mutex<Vec<Arc<Slot>>> = Mutex::new(Vec::new());

thread_local! {
    static MY: RefCell<Option<Arc<Slot>>> = RefCell::new(None);
}

fn my_slot() -> Arc<Slot> {
    MY.with(|m| {
        let mut m = m.borrow_mut();
        if m.is_none() {
            let s = Arc::new(Slot { cur: Mutex::new(None) });
            SLOTS.lock().unwrap().push(s.clone());
            *m = Some(s);
        }
        m.as_ref().unwrap().clone()
    })
}

/// run `f` while the case text is published to the watchdog
pub fn guarded<T>(case: impl FnOnce() -> String, f: impl FnOnce() -> T) -> T {
    let s = my_slot();
    *s.cur.lock().unwrap() = Some((case(), Instant::now()));
    let r = f();
    *s.cur.lock().unwrap() = None;
    r
}

/// start the watchdog; `on_timeout(case_text)` must report the violation; the process then exits with 1
pub fn start(horizon: Duration, on_timeout: impl Fn(&str) + Send + 'static) {
    std::thread::spawn(move || loop {
        std::thread::sleep(Duration::from_millis(500));
        let slots: Vec<Arc<Slot>> = SLOTS.lock().unwrap().clone();
        for s in slots {
            let cur = s.cur.lock().unwrap().clone();
            if let Some((case, t0)) = cur {
                if t0.elapsed() > horizon {
                    on_timeout(&case);
                    std::process::exit(1);
                }
            }
        }
    });
}


// ---------------------------------------------------------------------------------------------
// stall watchdog: a check (or one of its helper processes) whose threads have all stopped consuming CPU is blocked
// inside the code under test - e.g. a deadlock between locks a change brought along. Without this the check would
// neither pass nor fail.

fn cpu_ticks_of(pid: &str) -> Option<(u64, u64)> {
    let stat = std::fs::read_to_string(format!("/proc/{}/stat", pid)).ok()?;
    // the command name is in parentheses and may contain blanks: fields are counted after the last ')'
    let rest = &stat[stat.rfind(')')? + 2..];
    let f: Vec<&str> = rest.split_whitespace().collect();
    // rest[0] = state (field 3), ppid = field 4 -> index 1, utime = field 14 -> index 11, stime -> index 12
    let ppid: u64 = f.get(1)?.parse().ok()?;
    let ticks: u64 = f.get(11)?.parse::<u64>().ok()? + f.get(12)?.parse::<u64>().ok()?;
    Some((ppid, ticks))
}

/// CPU ticks consumed so far by this process and its live descendants
fn family_ticks() -> u64 {
    let me = std::process::id() as u64;
    let mut procs: Vec<(u64, u64, u64)> = vec![];
    if let Ok(rd) = std::fs::read_dir("/proc") {
        for e in rd.flatten() {
            let name = e.file_name().to_string_lossy().to_string();
            if let Ok(pid) = name.parse::<u64>() {
                if let Some((ppid, ticks)) = cpu_ticks_of(&name) {
                    procs.push((pid, ppid, ticks));
                }
            }
        }
    }
    let mut family = vec![me];
    let mut total = 0;
    let mut i = 0;
    while i < family.len() {
        let p = family[i];
        for (pid, ppid, ticks) in &procs {
            if *pid == p {
                total += ticks;
            }
            if *ppid == p && !family.contains(pid) {
                family.push(*pid);
            }
        }
        i += 1;
    }
    total
}

static HEARTBEAT: std::sync::atomic::AtomicU64 = std::sync::atomic::AtomicU64::new(0);

/// a sign of life from a part of a check that legitimately waits without using CPU (helper processes that sit out
/// stall periods of their own)
pub fn beat() {
    HEARTBEAT.fetch_add(1, std::sync::atomic::Ordering::Relaxed);
}

/// Starts the stall watchdog: when this process and all its descendants have used (almost) no CPU for `patience`,
/// `on_stall` is called (it is expected to report and exit the process).
pub fn stall_watchdog(patience: Duration, on_stall: impl Fn() + Send + 'static) {
    std::thread::spawn(move || {
        let period = Duration::from_secs(5);
        let mut last = family_ticks();
        let mut last_beat = HEARTBEAT.load(std::sync::atomic::Ordering::Relaxed);
        let mut idle = Duration::from_secs(0);
        loop {
            std::thread::sleep(period);
            let now = family_ticks();
            let beat = HEARTBEAT.load(std::sync::atomic::Ordering::Relaxed);
            // 100 ticks per second; less than 0.1 s of CPU in 5 s of wall time, and no sign of life, is idle
            if now.saturating_sub(last) < 10 && beat == last_beat {
                idle += period;
            } else {
                idle = Duration::from_secs(0);
            }
            last = now;
            last_beat = beat;
            if idle >= patience {
                on_stall();
                idle = Duration::from_secs(0);
            }
        }
    });
}
