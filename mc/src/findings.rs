//! Known findings (DESIGN.md section 6): the committed file /verif/known_findings.json lists genuine
//! defects that are recorded rather than repaired. A check tolerates a disagreement only when it is
//! reproduced exactly by the deviation switch of a finding listed there for the property being checked.
//! The file is read-only at run time.

use crate::model::eval::EDev;
use serde_json::Value;

#[derive(Clone, Debug)]
pub struct Finding {
    pub id: String,
    pub properties: Vec<String>,
    pub switch: String,
    pub what: String,
    pub raw: Value,
}

#[derive(Clone, Debug, Default)]
pub struct Findings {
    pub known: Vec<Finding>,
}

impl Findings {
    pub fn load(path: &str) -> Findings {
        let text = match std::fs::read_to_string(path) {
            Ok(t) => t,
            Err(_) => return Findings::default(),
        };
        let v: Value = serde_json::from_str(&text).unwrap_or_else(|e| {
            eprintln!("known_findings.json is not valid JSON: {}", e);
            std::process::exit(2)
        });
        let mut known = vec![];
        for f in v["known"].as_array().cloned().unwrap_or_default() {
            known.push(Finding {
                id: f["id"].as_str().unwrap_or("?").to_string(),
                properties: f["properties"].as_array().map(|a| a.iter().filter_map(|x| x.as_str().map(String::from)).collect()).unwrap_or_default(),
                switch: f["switch"].as_str().unwrap_or("").to_string(),
                what: f["what"].as_str().unwrap_or("").to_string(),
                raw: f.clone(),
            });
        }
        Findings { known }
    }

    /// finding id that licenses `switch` for property `prop`
    pub fn allowed(&self, prop: &str, switch: &str) -> Option<&str> {
        self.known.iter().find(|f| f.switch == switch && f.properties.iter().any(|p| p == prop)).map(|f| f.id.as_str())
    }

    /// numeric parameter of a finding (e.g. the shallowest failing ladder depth)
    pub fn param(&self, id: &str, key: &str) -> Option<u64> {
        self.known.iter().find(|f| f.id == id).and_then(|f| f.raw[key].as_u64())
    }

    pub fn describe(&self, id: &str) -> String {
        self.known.iter().find(|f| f.id == id).map(|f| f.what.clone()).unwrap_or_default()
    }

    /// bit mask of the evaluator deviation switches licensed for `prop`
    pub fn edev_mask(&self, prop: &str) -> u32 {
        let mut m = 0;
        for (i, n) in EDev::NAMES.iter().enumerate() {
            if self.allowed(prop, n).is_some() {
                m |= 1 << i;
            }
        }
        m
    }

    /// ids of the findings behind the bits of `mask`
    pub fn ids_for_mask(&self, prop: &str, mask: u32) -> Vec<String> {
        let mut v = vec![];
        for (i, n) in EDev::NAMES.iter().enumerate() {
            if mask & (1 << i) != 0 {
                if let Some(id) = self.allowed(prop, n) {
                    v.push(id.to_string());
                }
            }
        }
        v
    }
}

/// candidate switch sets in the order they are tried: singles, pairs, everything licensed
pub fn candidate_masks(allowed: u32) -> Vec<u32> {
    let bits: Vec<u32> = (0..32).map(|i| 1u32 << i).filter(|b| allowed & b != 0).collect();
    let mut v = vec![];
    for b in &bits {
        v.push(*b);
    }
    for (i, a) in bits.iter().enumerate() {
        for b in &bits[i + 1..] {
            v.push(a | b);
        }
    }
    if bits.len() > 2 {
        v.push(allowed);
    }
    v
}
