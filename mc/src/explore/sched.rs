//! Stateless, preemption-bounded exploration of thread interleavings over the real evaluator.
//!
//! Worker threads are real OS threads; exactly one holds the baton at any time. Scheduling points are the
//! `verif::point()` hooks compiled into jsonpath-rust (entry of every evaluation step). At a point the
//! running thread asks the controller who runs next: a prefix of recorded choices is replayed (any
//! divergence is a hard error), afterwards choice 0 (keep running the current thread) is taken to completion.

use std::cell::Cell;
use std::sync::{Arc, Condvar, Mutex};

#[derive(Clone, Debug, PartialEq)]
pub struct PointRec {
    /// canonical order: the running thread first if it is still enabled, then ascending thread ids
    pub enabled: Vec<usize>,
    pub chosen: usize,
    pub running_enabled: bool,
    pub point_id: u32,
    pub by: Option<usize>,
}

struct St {
    current: Option<usize>,
    alive: Vec<bool>,
    /// threads found waiting in a synchronisation primitive the scheduler does not model (a lock, a once-cell the
    /// code under test brought along) while its holder is pre-empted: they are skipped until they show up again
    blocked: Vec<bool>,
    /// number of scheduling decisions taken so far (a stall detector compares it between two timeouts)
    progress: u64,
    forced: u32,
    infeasible: bool,
    prefix: Vec<(usize, u32, Option<usize>)>,
    trace: Vec<PointRec>,
    error: Option<String>,
}

pub struct Ctl {
    m: Mutex<St>,
    cv: Condvar,
}

thread_local! {
    static MY: Cell<Option<(usize, *const Ctl)>> = Cell::new(None);
}

pub const HORIZON: usize = 20_000;

/// the hook installed into jsonpath-rust
pub fn hook(id: u32) {
    if let Some((tid, ctl)) = MY.with(|m| m.get()) {
        // SAFETY: the controller outlives every worker thread of its execution (they are joined before it is dropped)
        let ctl = unsafe { &*ctl };
        ctl.at_point(tid, id);
    }
}

impl Ctl {
    fn decide(&self, st: &mut St, running: Option<usize>, point_id: u32) {
        st.progress += 1;
        let mut enabled: Vec<usize> = vec![];
        let running_enabled = running.map_or(false, |r| st.alive[r] && !st.blocked[r]);
        if running_enabled {
            enabled.push(running.unwrap());
        }
        for (t, a) in st.alive.iter().enumerate() {
            if *a && !st.blocked[t] && Some(t) != running {
                enabled.push(t);
            }
        }
        if enabled.is_empty() {
            st.current = None;
            return;
        }
        let pos = st.trace.len();
        // once a thread has been set aside as blocked the execution depends on timing: a recorded prefix may then
        // not be replayable (the blocked thread is missing from the enabled set); such a branch is infeasible, not an
        // error of the explorer
        let timing = st.forced > 0 || st.blocked.iter().any(|b| *b);
        let idx = if pos < st.prefix.len() {
            let (c, pid, by) = st.prefix[pos];
            if pid != point_id || by != running {
                if timing {
                    st.infeasible = true;
                } else {
                    st.error = Some(format!("divergence while replaying the prefix at point {}: recorded (point {}, thread {:?}), now (point {}, thread {:?})", pos, pid, by, point_id, running));
                }
            }
            c
        } else {
            0
        };
        let idx = if idx >= enabled.len() {
            if timing {
                st.infeasible = true;
            } else {
                st.error = Some(format!("divergence: choice {} out of range ({} enabled) at point {}", idx, enabled.len(), pos));
            }
            0
        } else {
            idx
        };
        if pos >= HORIZON {
            st.error = Some(format!("horizon of {} scheduling points exceeded", HORIZON));
        }
        st.current = Some(enabled[idx]);
        st.trace.push(PointRec { enabled, chosen: idx, running_enabled, point_id, by: running });
    }

    fn at_point(&self, tid: usize, id: u32) {
        let mut st = self.m.lock().unwrap();
        if st.current != Some(tid) {
            // this thread had been set aside as blocked and the operating system has let it go on since: it is
            // runnable again and waits for its turn (or takes the baton if nobody holds it)
            st.blocked[tid] = false;
            st.progress += 1;
            if st.current.is_none() {
                st.current = Some(tid);
            }
            while st.current != Some(tid) {
                st = self.cv.wait(st).unwrap();
            }
            return;
        }
        self.decide(&mut st, Some(tid), id);
        if st.current == Some(tid) {
            // keeps running: nobody has to be woken
            return;
        }
        self.cv.notify_all();
        while st.current != Some(tid) {
            st = self.cv.wait(st).unwrap();
        }
    }

    fn wait_turn(&self, tid: usize) {
        let mut st = self.m.lock().unwrap();
        while st.current != Some(tid) {
            st = self.cv.wait(st).unwrap();
        }
    }

    fn finish(&self, tid: usize) {
        let mut st = self.m.lock().unwrap();
        st.alive[tid] = false;
        if st.current == Some(tid) {
            self.decide(&mut st, Some(tid), u32::MAX);
        } else {
            // finished without the baton (it had been set aside as blocked and ran on when it was released)
            st.blocked[tid] = false;
            st.progress += 1;
            if st.current.is_none() {
                self.decide(&mut st, None, u32::MAX);
            }
        }
        self.cv.notify_all();
    }
}

pub struct Execution<R> {
    pub trace: Vec<PointRec>,
    pub results: Vec<Option<R>>,
    pub error: Option<String>,
    /// how often a thread had to be set aside because it waited in a primitive the scheduler does not model
    pub forced: u32,
    /// the recorded prefix could not be followed because a thread was blocked: not a schedule of its own
    pub infeasible: bool,
    /// every live thread waits in such a primitive: the worker threads of this process are lost
    pub deadlock: bool,
}

/// a thread that takes no scheduling decision for two periods of this length is considered blocked
pub const STALL: std::time::Duration = std::time::Duration::from_millis(400);

impl<R> Execution<R> {
    pub fn choices(&self) -> Vec<usize> {
        self.trace.iter().map(|p| p.chosen).collect()
    }
    pub fn preemptions_before(&self, i: usize) -> usize {
        self.trace[..i].iter().filter(|p| p.running_enabled && p.chosen != 0).count()
    }
    pub fn points_per_thread(&self, n: usize) -> Vec<usize> {
        let mut v = vec![0; n];
        for p in &self.trace {
            if let Some(t) = p.by {
                if p.point_id != u32::MAX {
                    v[t] += 1;
                }
            }
        }
        v
    }
}

type Job = Box<dyn FnOnce() + Send>;

struct Worker {
    tx: std::sync::mpsc::Sender<Job>,
}

thread_local! {
    /// persistent worker threads of this explorer thread (creating OS threads per execution serialises on the
    /// process-wide address-space lock)
    static POOL: std::cell::RefCell<Vec<Worker>> = std::cell::RefCell::new(Vec::new());
}

fn submit(slot: usize, job: Job) {
    POOL.with(|p| {
        let mut p = p.borrow_mut();
        while p.len() <= slot {
            let (tx, rx) = std::sync::mpsc::channel::<Job>();
            std::thread::Builder::new()
                .stack_size(4 << 20)
                .spawn(move || {
                    while let Ok(job) = rx.recv() {
                        job();
                    }
                })
                .unwrap();
            p.push(Worker { tx });
        }
        p[slot].tx.send(job).expect("worker thread alive");
    })
}

/// run the bodies once under the given choice prefix
pub fn run_once<R: Send + 'static>(bodies: Vec<Box<dyn FnOnce() -> R + Send>>, prefix: &[(usize, u32, Option<usize>)]) -> Execution<R> {
    let n = bodies.len();
    let ctl = Arc::new(Ctl {
        m: Mutex::new(St { current: None, alive: vec![true; n], blocked: vec![false; n], progress: 0, forced: 0, infeasible: false, prefix: prefix.to_vec(), trace: vec![], error: None }),
        cv: Condvar::new(),
    });
    let (rtx, rrx) = std::sync::mpsc::channel::<(usize, Option<R>)>();
    for (tid, body) in bodies.into_iter().enumerate() {
        let ctl2 = ctl.clone();
        let rtx = rtx.clone();
        submit(
            tid,
            Box::new(move || {
                MY.with(|m| m.set(Some((tid, Arc::as_ptr(&ctl2)))));
                ctl2.wait_turn(tid);
                let r = std::panic::catch_unwind(std::panic::AssertUnwindSafe(body));
                MY.with(|m| m.set(None));
                ctl2.finish(tid);
                let _ = rtx.send((tid, r.ok()));
            }),
        );
    }
    drop(rtx);
    {
        let mut st = ctl.m.lock().unwrap();
        ctl.decide(&mut st, None, 0);
        ctl.cv.notify_all();
    }
    let mut results: Vec<Option<R>> = (0..n).map(|_| None).collect();
    let mut received = 0;
    let mut last_progress = u64::MAX;
    let mut stalled = 0;
    let mut deadlock = false;
    while received < n {
        match rrx.recv_timeout(STALL) {
            Ok((tid, r)) => {
                results[tid] = r;
                received += 1;
                stalled = 0;
            }
            Err(std::sync::mpsc::RecvTimeoutError::Disconnected) => break,
            Err(std::sync::mpsc::RecvTimeoutError::Timeout) => {
                let mut st = ctl.m.lock().unwrap();
                if st.progress != last_progress {
                    last_progress = st.progress;
                    stalled = 0;
                    continue;
                }
                stalled += 1;
                if stalled < 2 {
                    continue;
                }
                stalled = 0;
                // nobody has taken a decision for two periods: the thread holding the baton waits in a primitive
                // the scheduler does not see. Set it aside and let another thread run.
                if let Some(c) = st.current {
                    if st.alive[c] {
                        st.blocked[c] = true;
                        st.forced += 1;
                    }
                }
                let next = (0..n).find(|t| st.alive[*t] && !st.blocked[*t]);
                match next {
                    Some(t) => {
                        st.current = Some(t);
                        st.progress += 1;
                        last_progress = st.progress;
                        ctl.cv.notify_all();
                    }
                    None => {
                        if (0..n).any(|t| st.alive[t]) {
                            st.error = Some("deadlock: every live thread waits in a synchronisation primitive".to_string());
                            deadlock = true;
                        }
                        break;
                    }
                }
            }
        }
    }
    let st = ctl.m.lock().unwrap();
    Execution { trace: st.trace.clone(), results, error: st.error.clone(), forced: st.forced, infeasible: st.infeasible, deadlock }
}

pub struct ExploreStats {
    pub executions: u64,
    pub max_points: usize,
    pub capped: bool,
    /// set when the callback asked to stop (e.g. after a deadlock: the worker threads of this process are lost)
    pub abort: bool,
}

/// depth-first enumeration of every schedule with at most `bound` preemptions
pub fn explore<R: Send + 'static>(
    make_bodies: &(dyn Fn() -> Vec<Box<dyn FnOnce() -> R + Send>> + Sync),
    prefix: Vec<(usize, u32, Option<usize>)>,
    bound: usize,
    cap: u64,
    stats: &mut ExploreStats,
    on_exec: &mut dyn FnMut(&Execution<R>, &[(usize, u32, Option<usize>)]) -> bool,
) {
    if stats.abort {
        return;
    }
    if stats.executions >= cap {
        stats.capped = true;
        return;
    }
    let x = run_once(make_bodies(), &prefix);
    stats.executions += 1;
    stats.max_points = stats.max_points.max(x.trace.len());
    let full: Vec<(usize, u32, Option<usize>)> = x.trace.iter().map(|p| (p.chosen, p.point_id, p.by)).collect();
    if !on_exec(&x, &full) {
        stats.abort = true;
        return;
    }
    if x.error.is_some() || x.infeasible || x.deadlock {
        return;
    }
    for i in prefix.len()..x.trace.len() {
        let p = &x.trace[i];
        let mut cost = x.preemptions_before(i);
        if p.running_enabled {
            cost += 1;
        }
        if cost > bound {
            continue;
        }
        for alt in 1..p.enabled.len() {
            let mut pre = full[..i].to_vec();
            pre.push((alt, p.point_id, p.by));
            explore(make_bodies, pre, bound, cap, stats, on_exec);
        }
    }
}
