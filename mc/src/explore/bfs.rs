//! The evaluator as a transition system (DESIGN.md section 2): for one document, states are the
//! evaluator's observable `State.data` (tag + list of (node, path)), actions are segments, and every edge
//! is a real run of `js_path_process` on the action sequence that reaches the state, extended by the action.

use crate::acc::Acc;
use crate::gen::alpha::Alphabet;
use crate::imp::{self, AddrMap, ImplOut, Tag, FABRICATED};
use crate::model::ast::*;
use crate::model::eval::{resolve, Ctx, EDev, Node, ER};
use crate::model::render;
use jsonpath_rust::parser::model::{JpQuery, Segment};
use serde_json::{json, Value};
use std::collections::{HashSet, VecDeque};
use std::sync::Mutex;

#[derive(Clone, Debug, PartialEq, Eq, Hash)]
pub struct ObsState {
    pub tag: Tag,
    pub nodes: Vec<(u32, String)>,
}

pub struct BfsParams {
    pub lmax: usize,
    pub max_depth: usize,
    pub max_states: usize,
}

pub struct Edge<'a> {
    pub doc: &'a Value,
    pub am: &'a AddrMap,
    pub prefix: &'a [Seg],
    pub action: &'a Seg,
    pub input: &'a ObsState,
    pub out: &'a ImplOut,
    pub out_tag: &'a Result<Tag, String>,
}

impl<'a> Edge<'a> {
    pub fn query_string(&self) -> String {
        let mut s = String::from("$");
        for p in self.prefix {
            render::seg(p, &mut s);
        }
        render::seg(self.action, &mut s);
        s
    }
    pub fn prefix_string(&self) -> String {
        let mut s = String::from("$");
        for p in self.prefix {
            render::seg(p, &mut s);
        }
        s
    }
    pub fn action_string(&self) -> String {
        let mut s = String::new();
        render::seg(self.action, &mut s);
        s
    }
    pub fn case(&self) -> Value {
        json!({"kind": "edge", "doc": self.doc, "prefix": self.prefix_string(), "action": self.action_string(), "query": self.query_string()})
    }
    /// the input nodelist as model nodes (locations from the address map, path text as reported)
    pub fn model_input(&self) -> Vec<Node<'a>> {
        self.input
            .nodes
            .iter()
            .filter(|(id, _)| *id != FABRICATED)
            .map(|(id, p)| {
                let loc = self.am.loc(*id).clone();
                Node { v: resolve(self.doc, &loc).expect("address map location"), loc, lpath: p.clone() }
            })
            .collect()
    }
    pub fn model_succ(&self, dev: EDev) -> ER<Vec<Node<'a>>> {
        let ctx = Ctx { root: self.doc, dev };
        ctx.apply_seg(self.action, &self.model_input())
    }
}

/// the real parser's `Segment` for one alphabet action (its canonical rendering is parsed once)
pub fn impl_segment(action: &Seg) -> Result<Segment, String> {
    let mut s = String::from("$");
    render::seg(action, &mut s);
    match imp::parse(&s) {
        Ok(Ok(jq)) => {
            if jq.segments.len() == 1 {
                Ok(jq.segments.into_iter().next().unwrap())
            } else {
                Err(format!("{} parsed into {} segments", s, jq.segments.len()))
            }
        }
        Ok(Err(e)) => Err(format!("{} rejected: {}", s, e)),
        Err(p) => Err(format!("{} panicked: {}", s, p)),
    }
}

static COMPOSED: Mutex<Option<HashSet<u64>>> = Mutex::new(None);

/// parsing is compositional on the alphabet: parse(render(a) ++ render(b)) == [segment(a), segment(b)]
/// (checked once per distinct pair of renderings); returns the number of pairs checked now
pub fn check_compositional(actions: &[Seg], segs: &[Option<Segment>], acc: &mut Acc) {
    let rendered: Vec<String> = actions
        .iter()
        .map(|a| {
            let mut s = String::new();
            render::seg(a, &mut s);
            s
        })
        .collect();
    let mut todo = vec![];
    {
        let mut g = COMPOSED.lock().unwrap();
        let set = g.get_or_insert_with(HashSet::new);
        for (i, a) in rendered.iter().enumerate() {
            for (j, b) in rendered.iter().enumerate() {
                let key = crate::acc::fnv(&format!("{}\u{0}{}", a, b));
                if set.insert(key) {
                    todo.push((i, j));
                }
            }
        }
    }
    for (i, j) in todo {
        if let (Some(sa), Some(sb)) = (&segs[i], &segs[j]) {
            let q = format!("${}{}", rendered[i], rendered[j]);
            match imp::parse(&q) {
                Ok(Ok(jq)) => {
                    if jq.segments.len() != 2 || &jq.segments[0] != sa || &jq.segments[1] != sb {
                        acc.viol(
                            format!("parsing is not compositional: {} parses to {:?}, expected [{:?}, {:?}]", q, jq.segments, sa, sb),
                            json!({"kind": "compose", "query": q}),
                        );
                    }
                    acc.bump("compositional_pairs_checked", 1);
                }
                other => {
                    acc.viol(format!("{} does not parse although both segments parse alone: {:?}", q, other), json!({"kind": "compose", "query": q}));
                }
            }
        }
    }
}

pub fn bfs<F>(doc: &Value, alpha: &Alphabet, params: &BfsParams, acc: &mut Acc, mut on_edge: F)
where
    F: FnMut(&Edge, &mut Acc),
{
    let am = AddrMap::new(doc);
    let segs: Vec<Option<Segment>> = alpha
        .actions
        .iter()
        .map(|a| match impl_segment(a) {
            Ok(s) => Some(s),
            Err(e) => {
                acc.bump("alphabet_actions_unparsed", 1);
                acc.outcome(|| format!("unparsed action: {}", e));
                None
            }
        })
        .collect();
    check_compositional(&alpha.actions, &segs, acc);

    let init = ObsState { tag: Tag::Ref, nodes: vec![(0, "$".to_string())] };
    // the initial state must be what the evaluator reports for the empty query
    {
        let jq = JpQuery::new(vec![]);
        let out = imp::run_parsed(&jq, doc, &am);
        let tag = imp::state_tag(&jq, doc);
        if out != ImplOut::Ok(init.nodes.clone()) || tag != Ok(Tag::Ref) {
            acc.viol(format!("`$` does not return the root node: {:?} tag {:?}", out, tag), json!({"kind": "edge", "doc": doc, "prefix": "$", "action": "", "query": "$"}));
            return;
        }
    }
    let mut seen: HashSet<ObsState> = HashSet::new();
    seen.insert(init.clone());
    let mut queue: VecDeque<(Vec<u16>, ObsState)> = VecDeque::new();
    queue.push_back((vec![], init));
    acc.states += 1;
    let mut max_depth_seen = 0usize;
    let mut capped = false;
    while let Some((prefix, st)) = queue.pop_front() {
        max_depth_seen = max_depth_seen.max(prefix.len());
        if st.nodes.len() > params.lmax {
            acc.bump("truncated_states", 1);
            continue;
        }
        if prefix.len() >= params.max_depth {
            acc.bump("frontier_states_at_depth_bound", 1);
            continue;
        }
        if st.nodes.iter().any(|(id, _)| *id == FABRICATED) {
            continue;
        }
        let prefix_ast: Vec<Seg> = prefix.iter().map(|i| alpha.actions[*i as usize].clone()).collect();
        let prefix_segs: Vec<Segment> = prefix.iter().map(|i| segs[*i as usize].clone().unwrap()).collect();
        for (ai, action) in alpha.actions.iter().enumerate() {
            let seg = match &segs[ai] {
                Some(s) => s,
                None => continue,
            };
            let mut all = prefix_segs.clone();
            all.push(seg.clone());
            let jq = JpQuery::new(all);
            let out = imp::run_parsed(&jq, doc, &am);
            let tag = imp::state_tag(&jq, doc);
            acc.transitions += 1;
            acc.evals += 1;
            let edge = Edge { doc, am: &am, prefix: &prefix_ast, action, input: &st, out: &out, out_tag: &tag };
            on_edge(&edge, acc);
            if let (ImplOut::Ok(nodes), Ok(tag)) = (&out, &tag) {
                let ns = ObsState { tag: tag.clone(), nodes: nodes.clone() };
                if !seen.contains(&ns) {
                    if seen.len() >= params.max_states {
                        capped = true;
                        continue;
                    }
                    seen.insert(ns.clone());
                    acc.states += 1;
                    let mut p2 = prefix.clone();
                    p2.push(ai as u16);
                    queue.push_back((p2, ns));
                }
            }
        }
    }
    acc.max("max_depth_reached", max_depth_seen as u64);
    if capped {
        acc.bump("documents_hitting_state_cap", 1);
    }
    acc.bump("documents", 1);
}
