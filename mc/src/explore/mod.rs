pub mod bfs;
