pub mod bfs;
pub mod sched;
