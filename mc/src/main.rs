mod model;
fn main() {
    let a: Vec<String> = std::env::args().collect();
    if a.len() > 2 && a[1] == "p" {
        println!("{:?}", model::parse::rfc_parse(&a[2]));
    }
}
