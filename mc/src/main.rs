#![allow(dead_code)]
mod acc;
mod build;
mod checks;
mod explore;
mod findings;
mod gen;
mod imp;
mod model;
mod replay;
mod selftest;
mod watch;

fn usage() -> ! {
    eprintln!("usage: jpmc check <C01..C15> <quick|thorough> | jpmc replay <file> | jpmc selftest | jpmc p <query>");
    std::process::exit(2)
}

fn main() {
    let a: Vec<String> = std::env::args().collect();
    if a.len() < 2 {
        usage();
    }
    match a[1].as_str() {
        "p" if a.len() > 2 => {
            println!("{:?}", model::parse::rfc_parse(&a[2]));
        }
        "replay" if a.len() > 2 => {
            imp::quiet_panics();
            std::process::exit(replay::replay(&a[2]));
        }
        "ladder" if a.len() > 3 => {
            imp::quiet_panics();
            std::process::exit(checks::robust::rung_child(&a[2], a[3].parse().unwrap_or(8)));
        }
        "sched" if a.len() > 6 => {
            imp::quiet_panics();
            let child = a[4].parse::<usize>().ok();
            let stop = a[5].parse::<u64>().ok();
            std::process::exit(checks::purity::sched_child(a[2].parse().unwrap_or(0), a[3].parse().unwrap_or(2), child, stop, a[6].parse().unwrap_or(200000)));
        }
        "eval-fresh" if a.len() > 3 => {
            imp::quiet_panics();
            std::process::exit(checks::purity::eval_fresh_child(&a[2], a[3].parse().unwrap_or(0)));
        }
        "parse-fresh" if a.len() > 2 => {
            imp::quiet_panics();
            std::process::exit(checks::lang::parse_fresh_child(&a[2]));
        }
        "history-windows" if a.len() > 3 => {
            imp::quiet_panics();
            std::process::exit(checks::purity::windows_child(a[2].parse().unwrap_or(0), a[3].parse().unwrap_or(3)));
        }
        "history" => {
            imp::quiet_panics();
            let idx: Vec<usize> = a[2..].iter().filter_map(|x| x.parse().ok()).collect();
            std::process::exit(checks::purity::history_child(&idx));
        }
        "selftest" => {
            std::process::exit(selftest::run(true));
        }
        "check" if a.len() > 3 => {
            if selftest::run(false) != 0 {
                eprintln!("MACHINERY: oracle self-test failed");
                std::process::exit(2);
            }
            imp::quiet_panics();
            let tier = a[3].as_str();
            if tier != "quick" && tier != "thorough" {
                usage();
            }
            // every check runs on a thread with the main thread's default stack size so depth results are reproducible
            let prop = a[2].clone();
            let tier = tier.to_string();
            {
                // a check whose process family stops consuming CPU is blocked inside the code under test
                let (p, t) = (prop.clone(), tier.clone());
                watch::stall_watchdog(std::time::Duration::from_secs(90), move || {
                    let dir = acc::verif_dir();
                    let _ = std::fs::create_dir_all(format!("{}/replays", dir));
                    let path = format!("{}/replays/{}-stall.json", dir, p);
                    let _ = std::fs::write(&path, serde_json::json!({"kind": "stall", "property": p, "tier": t, "class": "the check stalled",
                        "message": "the check and all its helper processes stopped consuming CPU for 90 s: harness threads are blocked inside the code under test (deadlock, or a wait that nothing ends)"}).to_string());
                    println!("VIOLATION property={} replay={}", p, path);
                    println!("  the check stalled: for 90 s neither this process nor its helpers used any CPU - threads are blocked inside jsonpath-rust (a deadlock between locks of the code under test, or a wait that nothing ends)");
                    // helper processes are left to the operating system (they are blocked); this process ends here
                    std::process::exit(1);
                });
            }
            let h = std::thread::Builder::new()
                .stack_size(64 << 20)
                .spawn(move || match prop.as_str() {
                    "C01" | "C02" | "C03" => checks::nodelist::run(&prop, &tier),
                    "C11" => checks::slices::run(&tier),
                    "C04" => checks::compare::run(&tier),
                    "C14" => checks::ext::run(&tier),
                    "C05" => checks::logic::run(&tier),
                    "C10" => checks::funcs::run(&tier),
                    "C09" => checks::refs::run(&tier),
                    "C13" => checks::spellings::run(&tier),
                    "C15" => checks::views::run(&tier),
                    "C12" => checks::purity::run(&tier),
                    "C06" | "C07" | "C08" => checks::lang::run(&prop, &tier),
                    _ => {
                        eprintln!("no check for {}", prop);
                        2
                    }
                })
                .unwrap();
            let code = h.join().unwrap_or(2);
            std::process::exit(code);
        }
        _ => usage(),
    }
}
