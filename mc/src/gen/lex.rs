//! Token-level view of query strings: the token alphabet of the language enumeration and a tokenizer
//! for generated sentences (used to derive single-token edits).

/// the token alphabet of C06/C07 space 1 and of edit insertions / substitutions
pub const TOKENS: [&str; 31] = [
    "$", "@", ".", "..", "[", "]", "*", ",", ":", "?", "!", "(", ")", "&&", "||", "==", "<", "'a'", "\"a\"", "a", "1", "0", "-", " ", "length", "count", "match", "value",
    "true", "1.5", "e",
];

pub fn tokenize(s: &str) -> Vec<String> {
    let cs: Vec<char> = s.chars().collect();
    let mut out = vec![];
    let mut i = 0;
    while i < cs.len() {
        let c = cs[i];
        let st = i;
        if c == '\'' || c == '"' {
            i += 1;
            while i < cs.len() && cs[i] != c {
                if cs[i] == '\\' {
                    i += 1;
                }
                i += 1;
            }
            i = (i + 1).min(cs.len());
        } else if c.is_ascii_digit() || (c == '-' && cs.get(i + 1).map_or(false, |d| d.is_ascii_digit())) {
            i += 1;
            while i < cs.len() && cs[i].is_ascii_digit() {
                i += 1;
            }
            if i + 1 < cs.len() && cs[i] == '.' && cs[i + 1].is_ascii_digit() {
                i += 1;
                while i < cs.len() && cs[i].is_ascii_digit() {
                    i += 1;
                }
            }
            if i < cs.len() && (cs[i] == 'e' || cs[i] == 'E') {
                let mut j = i + 1;
                if j < cs.len() && (cs[j] == '+' || cs[j] == '-') {
                    j += 1;
                }
                if j < cs.len() && cs[j].is_ascii_digit() {
                    while j < cs.len() && cs[j].is_ascii_digit() {
                        j += 1;
                    }
                    i = j;
                }
            }
        } else if c.is_ascii_alphabetic() || c == '_' || (c as u32) >= 0x80 {
            while i < cs.len() && (cs[i].is_ascii_alphanumeric() || cs[i] == '_' || (cs[i] as u32) >= 0x80) {
                i += 1;
            }
        } else {
            let two: String = cs[i..(i + 2).min(cs.len())].iter().collect();
            if ["..", "&&", "||", "==", "!=", "<=", ">="].contains(&two.as_str()) {
                i += 2;
            } else {
                i += 1;
            }
        }
        out.push(cs[st..i].iter().collect());
    }
    out
}
