pub mod alpha;
pub mod docs;
pub mod lex;
pub mod sentences;
