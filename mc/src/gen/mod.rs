pub mod alpha;
pub mod docs;
