pub mod alpha;
pub mod docs;
pub mod lex;
pub mod sentences;
pub mod spell;
