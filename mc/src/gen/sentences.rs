//! Generative enumeration of valid, well-typed RFC 9535 queries (DESIGN.md section 4, C06/C07 space 3).
//! The enumerator builds model ASTs from the grammar's productions, independently of the recogniser in
//! `model::parse`; `selftest` requires every generated sentence to be accepted by the recogniser and to
//! parse back to the same AST.

use crate::model::ast::*;

fn nm(raw: &str, val: &str) -> Sel {
    Sel::Name { val: val.to_string(), raw: raw.to_string() }
}
fn q_rel(segs: Vec<Seg>) -> Query {
    Query::cur(segs)
}
fn q_abs(segs: Vec<Seg>) -> Query {
    Query::root(segs)
}
fn ch(s: Sel) -> Seg {
    Seg::child(vec![s])
}
fn de(s: Sel) -> Seg {
    Seg::desc(vec![s])
}
fn sh(n: &str) -> Sel {
    nm(n, n)
}
fn sq(n: &str) -> Sel {
    nm(&format!("'{}'", n), n)
}
fn dq(n: &str) -> Sel {
    nm(&format!("\"{}\"", n), n)
}
fn call(name: &str, args: Vec<Expr>) -> FnCall {
    FnCall { name: name.to_string(), args }
}
fn lit_s(raw: &str, val: &str) -> Lit {
    Lit::Str { val: val.to_string(), raw: raw.to_string() }
}

/// filter-queries usable as existence tests
pub fn tests(th: bool) -> Vec<Query> {
    let mut v = vec![
        q_rel(vec![ch(sh("a"))]),
        q_rel(vec![]),
        q_abs(vec![ch(sh("b"))]),
        q_rel(vec![ch(Sel::Wild)]),
        q_rel(vec![de(sh("a"))]),
        q_rel(vec![ch(Sel::Slice(Some(0), Some(1), None))]),
        q_rel(vec![ch(sq("a")), ch(Sel::Index(0))]),
        q_abs(vec![]),
        q_rel(vec![ch(Sel::Filter(Expr::Test(q_rel(vec![ch(sh("a"))]))))]),
        q_rel(vec![ch(sh("a")), ch(Sel::Filter(Expr::Cmp(Cmpable::Query(q_rel(vec![])), Op::Gt, Cmpable::Lit(Lit::int(1)))))]),
    ];
    if th {
        v.extend([
            q_rel(vec![Seg::child(vec![Sel::Index(0), sq("a")])]),
            q_rel(vec![de(Sel::Wild)]),
            q_abs(vec![de(Sel::Index(-1))]),
            q_rel(vec![ch(dq("a")), de(Sel::Slice(None, None, Some(-1)))]),
            q_abs(vec![ch(sh("a")), ch(sh("b")), ch(Sel::Wild)]),
        ]);
    }
    v
}

pub fn value_fns(th: bool) -> Vec<FnCall> {
    let a = Expr::Test(q_rel(vec![ch(sh("a"))]));
    let mut v = vec![
        call("length", vec![a.clone()]),
        call("length", vec![Expr::BareLit(lit_s("'s'", "s"))]),
        call("count", vec![Expr::Test(q_rel(vec![ch(Sel::Wild)]))]),
        call("count", vec![a.clone()]),
        call("value", vec![Expr::Test(q_rel(vec![de(sh("a"))]))]),
        call("length", vec![Expr::FuncTest(call("value", vec![Expr::Test(q_rel(vec![ch(Sel::Wild)]))]))]),
    ];
    if th {
        v.extend([
            call("length", vec![Expr::Test(q_abs(vec![ch(sq("a")), ch(Sel::Index(0))]))]),
            call("length", vec![Expr::BareLit(Lit::int(1))]),
            call("length", vec![Expr::BareLit(Lit::Null)]),
            call("count", vec![Expr::Test(q_abs(vec![]))]),
            call("value", vec![Expr::Test(q_rel(vec![]))]),
            call("length", vec![Expr::FuncTest(call("length", vec![a.clone()]))]),
            call("length", vec![Expr::FuncTest(call("count", vec![a.clone()]))]),
        ]);
    }
    v
}

pub fn comparables(th: bool) -> Vec<Cmpable> {
    let mut v = vec![
        Cmpable::Lit(Lit::int(1)),
        Cmpable::Lit(Lit::num_raw("-0")),
        Cmpable::Lit(Lit::num_raw("1.5e1")),
        Cmpable::Lit(lit_s("'x'", "x")),
        Cmpable::Lit(lit_s("\"y\"", "y")),
        Cmpable::Lit(Lit::Bool(true)),
        Cmpable::Lit(Lit::Null),
        Cmpable::Query(q_rel(vec![ch(sh("a"))])),
        Cmpable::Query(q_rel(vec![ch(sq("a")), ch(Sel::Index(0))])),
        Cmpable::Query(q_abs(vec![ch(sh("b"))])),
        Cmpable::Query(q_rel(vec![])),
    ];
    if th {
        v.extend([
            Cmpable::Lit(Lit::num_raw("-1")),
            Cmpable::Lit(Lit::num_raw("0.5")),
            Cmpable::Lit(Lit::num_raw("2E+2")),
            Cmpable::Lit(Lit::num_raw("9007199254740991")),
            Cmpable::Lit(Lit::Bool(false)),
            Cmpable::Lit(lit_s("''", "")),
            Cmpable::Lit(lit_s("'\\''", "'")),
            Cmpable::Query(q_abs(vec![])),
            Cmpable::Query(q_rel(vec![ch(Sel::Index(-1)), ch(dq("b"))])),
        ]);
    }
    v.extend(value_fns(th).into_iter().map(Cmpable::Func));
    v
}

pub fn logical_fns(th: bool) -> Vec<FnCall> {
    let a = Expr::Test(q_rel(vec![ch(sh("a"))]));
    let mut v = vec![
        call("match", vec![a.clone(), Expr::BareLit(lit_s("'x'", "x"))]),
        call("search", vec![a.clone(), Expr::Test(q_abs(vec![ch(sh("p"))]))]),
        call("match", vec![Expr::FuncTest(call("value", vec![Expr::Test(q_rel(vec![ch(Sel::Wild)]))])), Expr::BareLit(lit_s("\"a\"", "a"))]),
        call("search", vec![Expr::BareLit(lit_s("'s'", "s")), Expr::Test(q_rel(vec![ch(sh("p"))]))]),
    ];
    if th {
        v.extend([
            call("match", vec![Expr::Test(q_rel(vec![])), Expr::BareLit(lit_s("'a.*'", "a.*"))]),
            call("search", vec![Expr::Test(q_rel(vec![ch(Sel::Index(0))])), Expr::FuncTest(call("value", vec![Expr::Test(q_abs(vec![de(sh("p"))]))]))]),
            call("match", vec![Expr::BareLit(Lit::int(1)), Expr::BareLit(Lit::Null)]),
        ]);
    }
    v
}

/// every comparison over the comparable pool
pub fn comparisons(th: bool) -> Vec<Expr> {
    let c = comparables(th);
    let mut v = vec![];
    for l in &c {
        for op in Op::ALL {
            for r in &c {
                v.push(Expr::Cmp(l.clone(), op, r.clone()));
            }
        }
    }
    v
}

/// Boolean structure over a reduced atom set: every formula with up to `k` binary connectives, both
/// groupings, with and without `!` on parenthesised sub-formulas
pub fn formulas(k: usize) -> Vec<Expr> {
    let a = Expr::Test(q_rel(vec![ch(sh("a"))]));
    let b = Expr::Cmp(Cmpable::Query(q_rel(vec![ch(sh("b"))])), Op::Eq, Cmpable::Lit(Lit::int(1)));
    let m = Expr::FuncTest(call("match", vec![Expr::Test(q_rel(vec![ch(sh("a"))])), Expr::BareLit(lit_s("'x'", "x"))]));
    let nc = Expr::Not(Box::new(Expr::Test(q_rel(vec![ch(sh("c"))]))));
    let pa = Expr::Paren(Box::new(a.clone()));
    let atoms = vec![a, b, m, nc, pa];
    // and-level terms and or-level terms are kept apart so that rendering without parentheses is the parse
    let mut and_terms: Vec<Expr> = atoms.clone();
    let mut all: Vec<Expr> = atoms.clone();
    if k >= 1 {
        let mut ands = vec![];
        for x in &atoms {
            for y in &atoms {
                ands.push(Expr::And(vec![x.clone(), y.clone()]));
            }
        }
        let mut ors = vec![];
        for x in &atoms {
            for y in &atoms {
                ors.push(Expr::Or(vec![x.clone(), y.clone()]));
            }
        }
        all.extend(ands.iter().cloned());
        all.extend(ors.iter().cloned());
        if k >= 2 {
            let red = &atoms[..3];
            for x in red {
                for y in red {
                    for z in red {
                        // x && y && z ; x || y || z ; x && y || z ; x || y && z ; (x || y) && z ; x && (y || z) ; !(x && y) || z ; x && !(y || z)
                        all.push(Expr::And(vec![x.clone(), y.clone(), z.clone()]));
                        all.push(Expr::Or(vec![x.clone(), y.clone(), z.clone()]));
                        all.push(Expr::Or(vec![Expr::And(vec![x.clone(), y.clone()]), z.clone()]));
                        all.push(Expr::Or(vec![x.clone(), Expr::And(vec![y.clone(), z.clone()])]));
                        all.push(Expr::And(vec![Expr::Paren(Box::new(Expr::Or(vec![x.clone(), y.clone()]))), z.clone()]));
                        all.push(Expr::And(vec![x.clone(), Expr::Paren(Box::new(Expr::Or(vec![y.clone(), z.clone()])))]));
                        all.push(Expr::Or(vec![Expr::Not(Box::new(Expr::Paren(Box::new(Expr::And(vec![x.clone(), y.clone()]))))), z.clone()]));
                        all.push(Expr::And(vec![x.clone(), Expr::Not(Box::new(Expr::Paren(Box::new(Expr::Or(vec![y.clone(), z.clone()])))))]));
                    }
                }
            }
        }
        and_terms.extend(ands);
    }
    let _ = and_terms;
    all
}

pub fn filters(th: bool) -> Vec<Expr> {
    let mut v: Vec<Expr> = vec![];
    for t in tests(th) {
        v.push(Expr::Test(t.clone()));
        v.push(Expr::Not(Box::new(Expr::Test(t.clone()))));
        v.push(Expr::Paren(Box::new(Expr::Test(t.clone()))));
        v.push(Expr::Not(Box::new(Expr::Paren(Box::new(Expr::Test(t))))));
    }
    for f in logical_fns(th) {
        v.push(Expr::FuncTest(f.clone()));
        v.push(Expr::Not(Box::new(Expr::FuncTest(f.clone()))));
        v.push(Expr::Paren(Box::new(Expr::Paren(Box::new(Expr::FuncTest(f))))));
    }
    v.extend(comparisons(th));
    // negated comparisons `!(l op r)` over a reduced operand pool (a literal, a member, length(), count()): the only
    // way to negate a comparison, and the place where "!(a < b)" and "a >= b" differ (nothing, non-numbers)
    {
        let red = vec![
            Cmpable::Lit(Lit::int(1)),
            Cmpable::Query(q_rel(vec![ch(sh("a"))])),
            Cmpable::Func(call("length", vec![Expr::Test(q_rel(vec![ch(sh("a"))]))])),
            Cmpable::Func(call("count", vec![Expr::Test(q_rel(vec![ch(Sel::Wild)]))])),
        ];
        for l in &red {
            for op in Op::ALL {
                for r in &red {
                    v.push(Expr::Not(Box::new(Expr::Paren(Box::new(Expr::Cmp(l.clone(), op, r.clone()))))));
                }
            }
        }
    }
    // pairs of different atoms whose texts differ only in where the segment boundaries are, joined by `||` / `&&`
    // (an operand must never be mistaken for a repetition of its neighbour)
    {
        let t = |segs: Vec<Seg>| Expr::Test(q_rel(segs));
        let c = |segs: Vec<Seg>| Expr::Cmp(Cmpable::Query(q_rel(segs)), Op::Eq, Cmpable::Lit(Lit::int(1)));
        let pairs: Vec<(Expr, Expr)> = vec![
            (t(vec![ch(sh("a")), ch(sh("b"))]), t(vec![ch(sh("ab"))])),
            (c(vec![ch(sh("a")), ch(sh("b"))]), c(vec![ch(sh("ab"))])),
            (c(vec![ch(sh("a")), ch(Sel::Index(1))]), c(vec![ch(sh("a1"))])),
            (t(vec![ch(sh("a"))]), t(vec![ch(sh("a"))])),
        ];
        for (x, y) in pairs {
            v.push(Expr::Or(vec![x.clone(), y.clone()]));
            v.push(Expr::Or(vec![y.clone(), x.clone()]));
            v.push(Expr::And(vec![x.clone(), y.clone()]));
            v.push(Expr::Or(vec![x.clone(), y.clone(), x.clone()]));
        }
    }
    v.extend(formulas(if th { 2 } else { 2 }));
    v
}

pub fn segment_pool(th: bool) -> Vec<Seg> {
    let mut sels = vec![
        sq("a"),
        dq("b"),
        Sel::Wild,
        Sel::Index(0),
        Sel::Index(-1),
        Sel::Slice(Some(1), None, None),
        Sel::Slice(None, None, Some(2)),
        Sel::Slice(None, Some(1), Some(-1)),
    ];
    if th {
        sels.extend([Sel::Slice(None, None, None), Sel::Index(9007199254740991), Sel::Slice(Some(-9007199254740991), Some(2), Some(3)), sq("")]);
    }
    let mut v = vec![];
    for s in &sels {
        v.push(ch(s.clone()));
        v.push(de(s.clone()));
    }
    v.push(ch(sh("a")));
    v.push(de(sh("a")));
    v.push(ch(sh("_b1")));
    v.push(Seg::child(vec![Sel::Index(0), sq("a")]));
    v.push(Seg::child(vec![Sel::Wild, Sel::Slice(Some(1), None, None)]));
    v.push(Seg::desc(vec![sq("a"), Sel::Index(1)]));
    if th {
        v.push(Seg::child(vec![Sel::Index(1), Sel::Index(0), Sel::Index(1)]));
        v.push(Seg::desc(vec![Sel::Wild, Sel::Wild]));
    }
    v
}

/// the sentence set: every filter of the pool in three carriers, every segment sequence up to `max_segs`,
/// and unions that mix filters with other selectors
pub fn sentences(th: bool) -> Vec<Query> {
    let mut out = vec![];
    let fs = filters(th);
    for f in &fs {
        out.push(q_abs(vec![ch(Sel::Filter(f.clone()))]));
    }
    for (i, f) in fs.iter().enumerate() {
        if th || i % 7 == 0 {
            out.push(q_abs(vec![de(Sel::Filter(f.clone()))]));
            out.push(q_abs(vec![ch(sh("a")), ch(Sel::Filter(f.clone())), ch(Sel::Index(0))]));
            out.push(q_abs(vec![Seg::child(vec![Sel::Filter(f.clone()), Sel::Index(0)])]));
            out.push(q_abs(vec![Seg::child(vec![sq("a"), Sel::Filter(f.clone())])]));
        }
    }
    let pool = segment_pool(th);
    let max_segs = if th { 3 } else { 2 };
    let mut level: Vec<Vec<Seg>> = vec![vec![]];
    out.push(q_abs(vec![]));
    for _ in 0..max_segs {
        let mut next = vec![];
        for p in &level {
            for s in &pool {
                let mut p2 = p.clone();
                p2.push(s.clone());
                next.push(p2);
            }
        }
        for p in &next {
            out.push(q_abs(p.clone()));
        }
        level = next;
    }
    out
}
