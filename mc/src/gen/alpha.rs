//! Segment alphabets for the nodelist transition system (DESIGN.md section 2), instantiated per document.

use crate::model::ast::*;
use crate::model::parse::rfc_parse;
use serde_json::Value;

fn collect(v: &Value, names: &mut Vec<String>, maxlen: &mut usize) {
    match v {
        Value::Array(a) => {
            *maxlen = (*maxlen).max(a.len());
            for x in a {
                collect(x, names, maxlen);
            }
        }
        Value::Object(m) => {
            for (k, x) in m {
                if !names.contains(k) {
                    names.push(k.clone());
                }
                collect(x, names, maxlen);
            }
        }
        _ => {}
    }
}

/// parse a filter selector written as a query `$[?...]` into a `Sel`
pub fn filter_sel(text: &str) -> Sel {
    let q = format!("$[?{}]", text);
    let (q, _) = rfc_parse(&q).unwrap_or_else(|e| panic!("alphabet filter {:?}: {:?}", text, e));
    q.segs[0].sels[0].clone()
}

pub struct Alphabet {
    pub base: Vec<Sel>,
    pub actions: Vec<Seg>,
}

#[derive(Clone, Copy, PartialEq, Eq, Debug)]
pub enum AlphaSize {
    /// single-selector child and descendant segments only
    Singles,
    /// plus ordered pairs over a reduced base and a fixed set of triples
    Unions,
    /// plus ordered pairs over the whole base
    Full,
}

/// groups of filters that differ in meaning but are easily confused by a lossy rendering or a structural shortcut
/// (name chains vs joined names, grouping, omitted vs zero slice bounds, index chains vs unions vs longer indices)
pub const CONFUSABLE: [&[&str]; 10] = [
    // a negated ordering comparison is not the mirrored comparison (operands that are not comparable)
    &["!(@.a<2)", "@.a>=2", "!(@.a>='a')"],
    // a pattern taken from the document stays a document string whatever route it takes to the function
    &["match(@,value($..p))", "search(@,value($.q[0:1]))", "match(@,$.p)", "search(@,value($.q[?@]))"],
    // strings are ordered by Unicode scalar value: U+FFFD < U+10000 although its UTF-16 form sorts the other way
    &["@<'\u{10000}'", "@>='\u{fffd}'", "@<=@"],
    &["@==1e19", "@>1e19", "@<2e19", "@>=9223372036854775808.0"],
    &["@.a.b", "@.ab"],
    &["@.a.b==1", "@.ab==1"],
    &["(@.x||@.y)&&@.z", "@.x||@.y&&@.z"],
    &["@[:]", "@[0:0]"],
    &["@[1][0]", "@[1,0]", "@[10]"],
    &["@.a==@.b", "@.a!=@.b"],
];

pub const FILTERS: [&str; 12] = [
    "@..[?@==1]",
    "@.*[?@==1]",
    "count(@..*)>2",
    "@.a",
    "!@.a",
    "@==1",
    "@.a==$.a",
    "@[0]",
    "@.*",
    "count(@.*)>1",
    "@.a==1||@.b==1",
    "@>=1&&@!='a'",
];

pub fn alphabet(doc: &Value, size: AlphaSize, max_names: usize, spellings: bool) -> Alphabet {
    let mut names = vec![];
    let mut maxlen = 0usize;
    collect(doc, &mut names, &mut maxlen);
    names.truncate(max_names);
    names.push("zz".to_string());
    let l = maxlen.min(4) as i64;
    let mut base: Vec<Sel> = vec![];
    for n in &names {
        base.push(Sel::name(n));
        if spellings {
            base.push(Sel::Name { val: n.clone(), raw: crate::model::render::quote_double(n) });
            if crate::model::render::is_shorthand_name(n) {
                base.push(Sel::Name { val: n.clone(), raw: n.clone() });
            }
        }
    }
    for i in -(l + 1)..=l {
        base.push(Sel::Index(i));
    }
    base.push(Sel::Wild);
    for (a, b, c) in [
        (None, None, None),
        (Some(1), None, None),
        (None, Some(1), None),
        (Some(-1), None, None),
        (None, None, Some(2)),
        (None, None, Some(-1)),
        (Some(1), Some(0), Some(-1)),
        (Some(-1), Some(-3), Some(-1)),
        (None, None, Some(-2)),
        // bounds beyond the array on either side, with steps that do not divide them
        (Some(-(l + 2)), None, Some(2)),
        (Some(-(l + 1)), Some(l + 2), Some(3)),
        (Some(l + 1), None, Some(-2)),
        (Some(l), Some(-(l + 2)), Some(-1)),
        (Some(1), Some(-(l + 3)), Some(-2)),
        // step 0 selects nothing
        (None, None, Some(0)),
        (Some(1), Some(3), Some(0)),
    ] {
        base.push(Sel::Slice(a, b, c));
    }
    for f in FILTERS {
        base.push(filter_sel(f));
    }
    if spellings {
        // filters that reach a member through a bracketed (escaped) name
        for n in &names {
            let q = crate::model::render::quote_single(n);
            base.push(filter_sel(&format!("@[{}]", q)));
            base.push(filter_sel(&format!("@[{}]==1", q)));
        }
    }
    // the pool for the full pair product of the thorough tier is the base without the confusable groups (those are
    // paired within their groups below)
    let plain_base = base.clone();
    // the extras below (confusable filter groups, name triples) are aimed at the panel documents, which are explored
    // with more names; the exhaustive small universe keeps the plain union alphabet
    let extras = size != AlphaSize::Singles && max_names >= 4;
    if extras {
        for g in CONFUSABLE {
            for f in g.iter() {
                base.push(filter_sel(f));
            }
        }
    }
    let mut actions = vec![];
    for b in &base {
        actions.push(Seg::child(vec![b.clone()]));
    }
    for b in &base {
        actions.push(Seg::desc(vec![b.clone()]));
    }
    if size != AlphaSize::Singles {
        // reduced base for unions: first name, absent name, 0, -1, 1, *, 1:, ::-1, ?@.a, ?@==1
        let mut red: Vec<Sel> = vec![];
        red.push(Sel::name(&names[0]));
        if names.len() > 2 {
            red.push(Sel::name(&names[1]));
        }
        red.push(Sel::Index(0));
        red.push(Sel::Index(-1));
        red.push(Sel::Index(1));
        red.push(Sel::Wild);
        red.push(Sel::Slice(Some(1), None, None));
        red.push(Sel::Slice(None, None, Some(-1)));
        red.push(Sel::Slice(None, None, Some(0)));
        red.push(filter_sel("@.a"));
        red.push(filter_sel("@==1"));
        let pool: &Vec<Sel> = if size == AlphaSize::Full { &plain_base } else { &red };
        for a in pool {
            for b in pool {
                actions.push(Seg::child(vec![a.clone(), b.clone()]));
            }
        }
        for a in &red {
            for b in &red {
                actions.push(Seg::desc(vec![a.clone(), b.clone()]));
            }
        }
        // two filters of one bracketed selection that are easily confused with each other
        for g in CONFUSABLE.iter().filter(|_| extras) {
            for a in g.iter() {
                for b in g.iter() {
                    if a != b {
                        actions.push(Seg::child(vec![filter_sel(a), filter_sel(b)]));
                        actions.push(Seg::desc(vec![filter_sel(a), filter_sel(b)]));
                        actions.push(Seg::child(vec![filter_sel(a), Sel::Index(0), filter_sel(b)]));
                    }
                }
            }
        }
        // name-only selections longer than the object they meet has members, in every order and with repetitions
        if extras {
            let ns: Vec<Sel> = names.iter().take(4).map(|n| Sel::name(n)).collect();
            for a in &ns {
                for b in &ns {
                    for c in &ns {
                        actions.push(Seg::child(vec![a.clone(), b.clone(), c.clone()]));
                    }
                }
            }
            if ns.len() >= 3 {
                actions.push(Seg::child(vec![ns[1].clone(), ns[0].clone(), ns[2].clone(), ns[0].clone()]));
                actions.push(Seg::child(vec![ns[2].clone(), ns[2].clone(), ns[1].clone(), ns[0].clone(), ns[1].clone()]));
            }
        }
        let triples: Vec<Vec<Sel>> = vec![
            vec![Sel::Index(1), Sel::Index(0), Sel::Index(1)],
            vec![Sel::Wild, Sel::Index(0), Sel::Wild],
            vec![Sel::name(&names[0]), Sel::Wild, Sel::name(&names[0])],
            vec![Sel::Slice(None, None, Some(-1)), Sel::Index(0), Sel::Slice(Some(1), None, None)],
            vec![filter_sel("@.a"), Sel::Wild, filter_sel("!@.a")],
            vec![filter_sel("@.a"), filter_sel("@==1"), filter_sel("@.a")],
            vec![filter_sel("@==1"), filter_sel("@.a"), filter_sel("@==1"), filter_sel("@.a")],
        ];
        for t in triples {
            actions.push(Seg::child(t.clone()));
            actions.push(Seg::desc(t));
        }
    }
    Alphabet { base, actions }
}
