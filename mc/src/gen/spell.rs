//! Concrete spellings of one abstract query (C13): the query is rendered into a list of parts, where an
//! `Alt` part offers RFC-equivalent alternatives (first = canonical): quoting style / shorthand of names,
//! `.*` vs `[*]`, redundant parentheses, number spellings, and optional blank space at every `S` site.

use crate::model::ast::*;
use crate::model::render::{is_shorthand_name, quote_double, quote_single};

#[derive(Clone, Debug)]
pub enum Part {
    Lit(String),
    Alt(Vec<String>),
}

pub const BLANK_ALTS: [&str; 6] = ["", " ", "\t", "\n", "\r", " \n"];

struct W {
    parts: Vec<Part>,
}

impl W {
    fn lit(&mut self, s: &str) {
        if let Some(Part::Lit(l)) = self.parts.last_mut() {
            l.push_str(s);
        } else {
            self.parts.push(Part::Lit(s.to_string()));
        }
    }
    fn s(&mut self) {
        self.parts.push(Part::Alt(BLANK_ALTS.iter().map(|x| x.to_string()).collect()));
    }
    fn alt(&mut self, v: Vec<String>) {
        if v.len() == 1 {
            self.lit(&v[0]);
        } else {
            self.parts.push(Part::Alt(v));
        }
    }

    fn name_in_brackets(&mut self, val: &str) {
        self.alt(vec![quote_single(val), quote_double(val)]);
    }

    fn sel(&mut self, s: &Sel) {
        match s {
            Sel::Name { val, .. } => self.name_in_brackets(val),
            Sel::Wild => self.lit("*"),
            Sel::Index(i) => self.lit(&i.to_string()),
            Sel::Slice(a, b, c) => {
                if let Some(a) = a {
                    self.lit(&a.to_string());
                    self.s();
                }
                self.lit(":");
                self.s();
                if let Some(b) = b {
                    self.lit(&b.to_string());
                    self.s();
                }
                if let Some(c) = c {
                    self.lit(":");
                    self.s();
                    self.lit(&c.to_string());
                } else {
                    // a trailing colon without step is equivalent
                    self.alt(vec![String::new(), ":".to_string()]);
                }
            }
            Sel::Filter(e) => {
                self.lit("?");
                self.s();
                // ?e / ?(e) / ?((e))
                self.alt(vec![String::new(), "(".to_string(), "((".to_string()]);
                let open_idx = self.parts.len() - 1;
                self.expr(e);
                // the closing side must mirror the opening choice: encoded as a linked alternative
                self.parts.push(Part::Alt(vec![String::new(), ")".to_string(), "))".to_string()]));
                let close_idx = self.parts.len() - 1;
                LINKS.with(|l| l.borrow_mut().push((open_idx, close_idx)));
            }
        }
    }

    fn seg(&mut self, s: &Seg, singular_ctx: bool) {
        if s.sels.len() == 1 {
            match &s.sels[0] {
                Sel::Name { val, .. } => {
                    let mut v = if s.desc { vec![format!("..[{}]", quote_single(val)), format!("..[{}]", quote_double(val))] } else { vec![format!("[{}]", quote_single(val)), format!("[{}]", quote_double(val))] };
                    if is_shorthand_name(val) {
                        v.push(if s.desc { format!("..{}", val) } else { format!(".{}", val) });
                    }
                    self.alt(v);
                    return;
                }
                Sel::Wild => {
                    self.alt(if s.desc { vec!["..[*]".to_string(), "..*".to_string()] } else { vec!["[*]".to_string(), ".*".to_string()] });
                    return;
                }
                Sel::Index(i) if singular_ctx => {
                    self.lit(&format!("[{}]", i));
                    return;
                }
                _ => {}
            }
        }
        if s.desc {
            self.lit("..");
        }
        self.lit("[");
        self.s();
        for (i, x) in s.sels.iter().enumerate() {
            if i > 0 {
                self.s();
                self.lit(",");
                self.s();
            }
            self.sel(x);
        }
        self.s();
        self.lit("]");
    }

    fn query(&mut self, q: &Query, singular_ctx: bool) {
        self.lit(if q.abs { "$" } else { "@" });
        for s in &q.segs {
            self.s();
            self.seg(s, singular_ctx);
        }
    }

    fn lit_v(&mut self, l: &Lit) {
        match l {
            Lit::Num { raw, int_form, val } => {
                let mut v = vec![raw.clone()];
                if *int_form && val.abs() >= 1.0 {
                    v.push(format!("{}.0", raw));
                    v.push(format!("{}e0", raw));
                    v.push(format!("{}E+0", raw));
                    v.push(format!("{}0e-1", raw));
                    v.push(format!("{}.00E0", raw));
                }
                self.alt(v);
            }
            Lit::Str { val, .. } => self.alt(vec![quote_single(val), quote_double(val)]),
            Lit::Bool(b) => self.lit(if *b { "true" } else { "false" }),
            Lit::Null => self.lit("null"),
        }
    }

    fn call(&mut self, f: &FnCall) {
        self.lit(&f.name);
        self.lit("(");
        self.s();
        for (i, a) in f.args.iter().enumerate() {
            if i > 0 {
                self.s();
                self.lit(",");
                self.s();
            }
            match a {
                Expr::BareLit(l) => self.lit_v(l),
                Expr::Test(q) => self.query(q, false),
                Expr::FuncTest(g) => self.call(g),
                other => self.expr(other),
            }
        }
        self.s();
        self.lit(")");
    }

    fn cmpable(&mut self, c: &Cmpable) {
        match c {
            Cmpable::Lit(l) => self.lit_v(l),
            Cmpable::Query(q) => self.query(q, true),
            Cmpable::Func(f) => self.call(f),
        }
    }

    /// an atom that may be wrapped in redundant parentheses
    fn wrapped(&mut self, f: impl FnOnce(&mut W)) {
        self.alt(vec![String::new(), "(".to_string()]);
        let o = self.parts.len() - 1;
        f(self);
        self.parts.push(Part::Alt(vec![String::new(), ")".to_string()]));
        let c = self.parts.len() - 1;
        LINKS.with(|l| l.borrow_mut().push((o, c)));
    }

    fn expr(&mut self, e: &Expr) {
        match e {
            Expr::Or(v) => {
                for (i, x) in v.iter().enumerate() {
                    if i > 0 {
                        self.s();
                        self.lit("||");
                        self.s();
                    }
                    self.expr(x);
                }
            }
            Expr::And(v) => {
                for (i, x) in v.iter().enumerate() {
                    if i > 0 {
                        self.s();
                        self.lit("&&");
                        self.s();
                    }
                    self.expr(x);
                }
            }
            Expr::Not(x) => {
                self.lit("!");
                self.s();
                match &**x {
                    Expr::Paren(_) => self.expr(x),
                    other => self.wrapped(|w| w.expr(other)),
                }
            }
            Expr::Paren(x) => {
                self.lit("(");
                self.s();
                self.expr(x);
                self.s();
                self.lit(")");
            }
            Expr::Test(q) => self.wrapped(|w| w.query(q, false)),
            Expr::FuncTest(f) => self.wrapped(|w| w.call(f)),
            Expr::Cmp(l, op, r) => self.wrapped(|w| {
                w.cmpable(l);
                w.s();
                w.lit(op.text());
                w.s();
                w.cmpable(r);
            }),
            Expr::BareLit(l) => self.lit_v(l),
        }
    }
}

thread_local! {
    static LINKS: std::cell::RefCell<Vec<(usize, usize)>> = std::cell::RefCell::new(Vec::new());
}

pub struct Spelling {
    pub parts: Vec<Part>,
    /// pairs of Alt parts that must take the same alternative index (opening / closing parentheses)
    pub links: Vec<(usize, usize)>,
}

pub fn parts(q: &Query) -> Spelling {
    LINKS.with(|l| l.borrow_mut().clear());
    let mut w = W { parts: vec![] };
    w.query(q, false);
    let links = LINKS.with(|l| l.borrow().clone());
    Spelling { parts: w.parts, links }
}

impl Spelling {
    /// choice sites: indices of Alt parts that are free (the closing half of a link follows its opening half)
    pub fn sites(&self) -> Vec<usize> {
        let closers: Vec<usize> = self.links.iter().map(|x| x.1).collect();
        self.parts.iter().enumerate().filter(|(i, p)| matches!(p, Part::Alt(_)) && !closers.contains(i)).map(|(i, _)| i).collect()
    }
    pub fn alts(&self, site: usize) -> usize {
        match &self.parts[site] {
            Part::Alt(v) => v.len(),
            _ => 1,
        }
    }
    /// render with the given (site, alternative) deviations, everything else canonical
    pub fn render(&self, dev: &[(usize, usize)]) -> String {
        let mut choice = vec![0usize; self.parts.len()];
        for (s, a) in dev {
            choice[*s] = *a;
        }
        for (o, c) in &self.links {
            choice[*c] = choice[*o];
        }
        let mut out = String::new();
        for (i, p) in self.parts.iter().enumerate() {
            match p {
                Part::Lit(s) => out.push_str(s),
                Part::Alt(v) => out.push_str(&v[choice[i]]),
            }
        }
        out
    }
}
