//! Document universes (DESIGN.md section 2).

use serde_json::{json, Map, Value};

/// every JSON value of nesting depth <= `depth` whose containers have 1..=`width` children (plus the empty
/// containers), over the given leaves and member names; objects in every insertion order of distinct names
pub fn universe(depth: usize, width: usize, leaves: &[Value], names: &[&str]) -> Vec<Value> {
    let mut level: Vec<Value> = leaves.to_vec();
    level.push(json!([]));
    level.push(json!({}));
    for _ in 0..depth {
        let prev = level.clone();
        let mut next = prev.clone();
        // arrays
        let mut tuples: Vec<Vec<Value>> = vec![vec![]];
        for _ in 0..width {
            let mut grown = vec![];
            for t in &tuples {
                for v in &prev {
                    let mut t2 = t.clone();
                    t2.push(v.clone());
                    grown.push(t2);
                }
            }
            for t in &grown {
                next.push(Value::Array(t.clone()));
            }
            tuples = grown;
        }
        // objects: ordered sequences of distinct names
        let mut seqs: Vec<Vec<&str>> = vec![vec![]];
        for _ in 0..width.min(names.len()) {
            let mut grown = vec![];
            for s in &seqs {
                for n in names {
                    if !s.contains(n) {
                        let mut s2 = s.clone();
                        s2.push(*n);
                        grown.push(s2);
                    }
                }
            }
            for s in &grown {
                let mut objs: Vec<Map<String, Value>> = vec![Map::new()];
                for n in s {
                    let mut g = vec![];
                    for o in &objs {
                        for v in &prev {
                            let mut o2 = o.clone();
                            o2.insert(n.to_string(), v.clone());
                            g.push(o2);
                        }
                    }
                    objs = g;
                }
                for o in objs {
                    next.push(Value::Object(o));
                }
            }
            seqs = grown;
        }
        level = next;
    }
    level
}

pub fn bookstore() -> Value {
    json!({ "store": {
        "book": [
          { "category": "reference", "author": "Nigel Rees", "title": "Sayings of the Century", "price": 8.95 },
          { "category": "fiction", "author": "Evelyn Waugh", "title": "Sword of Honour", "price": 12.99 },
          { "category": "fiction", "author": "Herman Melville", "title": "Moby Dick", "isbn": "0-553-21311-3", "price": 8.99 },
          { "category": "fiction", "author": "J. R. R. Tolkien", "title": "The Lord of the Rings", "isbn": "0-395-19395-8", "price": 22.99 }
        ],
        "bicycle": { "color": "red", "price": 399 }
      }
    })
}

/// panel P: deeper / wider shapes than the exhaustive universe reaches
pub fn panel() -> Vec<Value> {
    let mut v = vec![
        bookstore(),
        json!([[1, 2], [3, 4]]),
        json!([[1, 2, 3], [4, 5, 6], [7, 8, 9]]),
        json!({"a": [{"a": 1, "b": 2}, {"b": 3, "a": 4}], "b": {"a": [5, 6], "b": [7, 8]}}),
        json!([{"a": [1, [2, [3, [4]]]]}, {"a": {"a": {"a": {"a": 1}}}}]),
        json!({"o": {"j": 1, "k": 2}, "a": [5, 3, [{"j": 4}, {"k": 6}]]}),
        json!([1, 1, 1, 1]),
        json!([[1, 1], [1, 1]]),
        json!({"a": 1, "b": 1, "c": {"a": 1, "b": 1}}),
        json!([0, 1, 2, 3, 4, 5, 6, 7, 8, 9]),
        json!({"z": [3, 1, 2], "m": {"z": 1, "a": 2}, "a": [[], {}, null, false, 0, ""]}),
        json!([[[1, 2], [3, 4]], [[5, 6], [7, 8]]]),
        json!({"a": {"b": {"c": [1, 2, {"d": [3, 4]}]}}, "b": [{"c": 1}, {"c": [1, 2]}]}),
        json!([{"a": 1, "b": [1, 2]}, {"a": "a", "b": []}, {"a": null}, {"b": {"a": 1}}, [], [{"a": 1}], "a", 1]),
        json!({"k": [{"s": "ab", "n": 1}, {"s": "ba", "n": 2}, {"s": "", "n": 3}, {"n": 1.0}], "u": 1, "p": "a.*"}),
        json!(1),
        json!("a"),
        json!(null),
        json!([]),
        json!({}),
        json!([[]]),
        json!({"a": {}}),
        json!([[[[[[1]]]]]]),
        json!({"a": {"a": {"a": {"a": {"a": 1}}}}}),
        json!([1.0, 1, "1", [1], {"1": 1}, true, null]),
        // two operands taken from the document: containers holding the same number written differently
        json!([{"a": {"n": 1}, "b": {"n": 1.0}}, {"a": {"n": 1}, "b": {"n": 2}}, {"a": [{"n": 10}], "b": [{"n": 1e1}]}, {"a": {"n": 1, "m": [2]}, "b": {"m": [2.0], "n": 1}}, {"a": 1}]),
        // a regular expression with an escaped backslash stored in the document, and subjects that tell it from its
        // collapsed form
        json!({"p": "a\\\\b", "q": ["a\\\\b"], "s1": "a\\b", "s2": "a\\\\b", "s3": "ab", "s4": "a b"}),
        // strings whose order differs between scalar values, UTF-16 code units and (for some) UTF-8 bytes
        json!(["a", "\u{d7ff}", "\u{e000}", "\u{fffd}", "\u{ffff}", "\u{10000}", "\u{10ffff}", "x\u{ff21}", "x\u{1f600}", "", "\u{e9}", "e\u{301}"]),
        // numbers around the limits of the integer representations (2^63, 2^64) next to float-stored neighbours
        json!([5, 1e19, 2e19, 9.5e18, 18446744073709551615u64, 9223372036854775808u64, -9223372036854775808i64, -1e19, 9223372036854775807i64, 1.8446744073709552e19]),
        // children told apart only by filters that are easily confused (see gen::alpha::CONFUSABLE)
        json!([{"a": {"b": 1}}, {"ab": 1}, {"a": {"b": 1}, "ab": 1}, {"x": 1}, {"y": 1, "z": 1}, {"y": 1}, [5, [7]], [5, 6], [0, 1, 2, 3, 4, 5, 6, 7, 8, 9, 10]]),
    ];
    // arrays of arrays of growing length for `..[i]`
    for n in 0..4 {
        let inner: Vec<Value> = (0..n).map(|i| json!([i, [i, i + 1]])).collect();
        v.push(Value::Array(inner));
    }
    v
}

/// member names that exercise escaping, quoting and pointer syntax
pub fn odd_names() -> Vec<String> {
    let mut v: Vec<String> = vec![
        "a", "b", "", " ", "'", "\"", "\\", "/", "~", "~0", "~1", "0", "1", "a'b", "a\"b", "'a'", "\"a\"", "a b", "\n", "\t", "\r",
        "a/b", "a~b", "\\n", "\\\\", "a\\", "'", "''", "*", "$", "@", "[0]", "a.b", "-1", "01", "a  b", "  ", "a\\/b", "\\/", "a\\b", "\\\\/",
    ]
    .into_iter()
    .map(String::from)
    .collect();
    for cp in [0x07u32, 0x08, 0x0c, 0x1f, 0x7f, 0xe9, 0xa0, 0x2028, 0xffff, 0x1d11e, 0x10ffff] {
        v.push(char::from_u32(cp).unwrap().to_string());
    }
    v.push(format!("a{}", char::from_u32(0xa0).unwrap()));
    v.dedup();
    let mut seen = std::collections::HashSet::new();
    v.retain(|s| seen.insert(s.clone()));
    v
}

/// universe N: every odd name alone at the root, under an array, nested under itself, and in ordered pairs
pub fn names_universe(pairs: bool) -> Vec<Value> {
    let names = odd_names();
    let mut out = vec![];
    for n in &names {
        let mut m = Map::new();
        m.insert(n.clone(), json!(1));
        out.push(Value::Object(m.clone()));
        out.push(json!([Value::Object(m.clone()), 2]));
        let mut m2 = Map::new();
        m2.insert(n.clone(), Value::Object(m.clone()));
        out.push(Value::Object(m2));
        let mut m3 = Map::new();
        m3.insert(n.clone(), json!([1, {"a": 2}]));
        out.push(Value::Object(m3));
    }
    for (a, b) in [("a b", "a  b"), (" ", "  "), ("a/b", "a\\/b"), ("/", "\\/"), ("a", "\"a\""), ("a", "'a'"), ("a\\b", "a\\\\b"), ("\\", "\\\\"), ("0", "00"), ("a", "A"),
        // a blank that follows a quote character or a backslash inside the name, against the same name without it
        ("a\" b", "a\"b"), ("a' b", "a'b"), ("say \"hi there\"", "say \"hithere\""), ("\" \"", "\"\""), ("' '", "''"), ("a\\ b", "a\\b"), ("a \"b", "a\"b"), ("a\"\tb", "a\"b")] {
        let mut m = Map::new();
        m.insert(a.to_string(), json!(1));
        m.insert(b.to_string(), json!([2]));
        out.push(Value::Object(m.clone()));
        out.push(json!([Value::Object(m), {"zz": 3}]));
    }
    // a member named by one syntax-significant character (or a few) nested below another: what one name does to a
    // scanner's state must not change how the next step of the same path is read
    {
        let syn = ["\"", "'", "\\", "?", "[", "]", ".", "*", ",", ":", "(", ")", "@", "$", " ", "a\"", "b?", "pipe 5\"", "fits?", "'x", "]?["];
        for a in syn {
            for b in syn {
                let mut inner = Map::new();
                inner.insert(b.to_string(), json!(true));
                inner.insert("k".to_string(), json!(12));
                let mut m = Map::new();
                m.insert(a.to_string(), Value::Object(inner));
                out.push(Value::Object(m));
            }
        }
    }
    if pairs {
        for a in &names {
            for b in &names {
                if a != b {
                    let mut m = Map::new();
                    m.insert(a.clone(), json!(1));
                    m.insert(b.clone(), json!([2]));
                    out.push(Value::Object(m));
                }
            }
        }
    }
    out
}

/// documents deeper than a JSON text parser accepts (serde_json: 128 levels): a branching core below `depth`
/// single-child wrappers of one kind (array, object, alternating); they can only be assembled in code
pub fn deep_docs(thorough: bool) -> Vec<Value> {
    let cores = [
        json!([["a"], ["b"], [["c"], ["d"]]]),
        json!({"x": {"p": 1, "q": [2, 3]}, "y": {"q": 4, "p": [5, {"p": 6}]}}),
        json!([[1, [2]], {"a": [3], "b": [4]}, [5]]),
    ];
    let mut out = vec![];
    for core in &cores {
        let depths: &[usize] = if thorough { &[3, 126, 127, 128, 129, 130, 160] } else { &[127, 128, 129] };
        for &depth in depths {
            for kind in 0..3 {
                let mut v = core.clone();
                for k in 0..depth {
                    let arr = match kind {
                        0 => true,
                        1 => false,
                        _ => k % 2 == 0,
                    };
                    v = if arr { Value::Array(vec![v]) } else { json!({ "a": v }) };
                }
                // thorough: the deep part is the second child of the root, so that `$[1]..x` counts depth from there
                out.push(if thorough { json!([0, v]) } else { v });
            }
        }
    }
    out
}

/// nesting depth of a value (iterative on the first child chain is not enough: full walk, explicit stack)
pub fn depth(v: &Value) -> usize {
    let mut max = 0;
    let mut stack: Vec<(&Value, usize)> = vec![(v, 0)];
    while let Some((x, d)) = stack.pop() {
        max = max.max(d);
        match x {
            Value::Array(a) => stack.extend(a.iter().map(|y| (y, d + 1))),
            Value::Object(m) => stack.extend(m.values().map(|y| (y, d + 1))),
            _ => {}
        }
    }
    max
}

/// a query with several descendant segments on a very deep document yields depth^k nodes, each with a path of
/// `depth` steps: such pairs are left out of the products that pair every sentence with every panel document
pub fn too_big(query: &str, doc_depth: usize) -> bool {
    doc_depth > 64 && query.matches("..").count() >= 2
}
