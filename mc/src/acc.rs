//! Accumulators, evidence files, replay files, exit codes (shared by all checks).

use crate::findings::Findings;
use serde_json::{json, Value};
use std::collections::BTreeMap;
use std::time::Instant;

#[derive(Clone, Debug)]
pub struct Viol {
    pub msg: String,
    pub case: Value,
}

#[derive(Clone, Debug, Default)]
pub struct Acc {
    pub evals: u64,
    pub nontrivial: u64,
    pub states: u64,
    pub transitions: u64,
    pub viol_count: u64,
    pub viols: Vec<Viol>,
    /// finding id -> (attributed cases, first witness)
    pub known: BTreeMap<String, (u64, String)>,
    pub samples: Vec<Value>,
    pub extra: BTreeMap<String, u64>,
    pub outcomes: std::collections::BTreeSet<String>,
    /// violation classes (triage aid): label -> (count, first message)
    pub classes: BTreeMap<String, (u64, String)>,
}

pub const MAX_VIOLS_KEPT: usize = 25;

impl Acc {
    pub fn new() -> Acc {
        Acc::default()
    }
    pub fn bump(&mut self, k: &str, n: u64) {
        *self.extra.entry(k.to_string()).or_insert(0) += n;
    }
    pub fn max(&mut self, k: &str, n: u64) {
        let e = self.extra.entry(k.to_string()).or_insert(0);
        if n > *e {
            *e = n;
        }
    }
    pub fn viol(&mut self, msg: String, case: Value) {
        let label = case.get("action").and_then(|x| x.as_str()).or_else(|| case.get("class").and_then(|x| x.as_str())).unwrap_or("-").to_string();
        let e = self.classes.entry(label).or_insert_with(|| (0, String::new()));
        if e.0 < 12 && std::env::var("VERIF_TRIAGE").is_ok() {
            e.1.push_str("\n        ");
            e.1.push_str(&msg.chars().take(260).collect::<String>());
        } else if e.0 == 0 {
            e.1 = msg.chars().take(300).collect();
        }
        e.0 += 1;
        let in_class = e.0;
        self.viol_count += 1;
        // keep the replay files diverse: at most 4 per class while there is room
        if self.viols.len() < MAX_VIOLS_KEPT && (in_class <= 4 || self.viols.len() < MAX_VIOLS_KEPT / 2) {
            self.viols.push(Viol { msg, case });
        }
    }
    pub fn first_violation(&self) -> Option<String> {
        self.viols.first().map(|v| v.msg.clone())
    }
    pub fn known(&mut self, id: &str, witness: impl FnOnce() -> String) {
        let e = self.known.entry(id.to_string()).or_insert_with(|| (0, String::new()));
        if e.0 == 0 {
            e.1 = witness();
        }
        e.0 += 1;
    }
    pub fn sample(&mut self, s: impl FnOnce() -> Value) {
        if self.samples.len() < 6 {
            self.samples.push(s());
        }
    }
    pub fn outcome(&mut self, s: impl FnOnce() -> String) {
        if self.outcomes.len() < 4096 {
            self.outcomes.insert(s());
        }
    }
    pub fn merge(mut self, o: Acc) -> Acc {
        self.evals += o.evals;
        self.nontrivial += o.nontrivial;
        self.states += o.states;
        self.transitions += o.transitions;
        self.viol_count += o.viol_count;
        for v in o.viols {
            if self.viols.len() < MAX_VIOLS_KEPT {
                self.viols.push(v);
            }
        }
        for (k, (n, w)) in o.known {
            let e = self.known.entry(k).or_insert_with(|| (0, String::new()));
            if e.0 == 0 {
                e.1 = w;
            }
            e.0 += n;
        }
        for s in o.samples {
            if self.samples.len() < 6 {
                self.samples.push(s);
            }
        }
        for (k, n) in o.extra {
            if k.starts_with("max_") {
                let e = self.extra.entry(k).or_insert(0);
                if n > *e {
                    *e = n;
                }
            } else {
                *self.extra.entry(k).or_insert(0) += n;
            }
        }
        for s in o.outcomes {
            if self.outcomes.len() < 4096 {
                self.outcomes.insert(s);
            }
        }
        for (k, (n, w)) in o.classes {
            let e = self.classes.entry(k).or_insert_with(|| (0, String::new()));
            if e.0 == 0 {
                e.1 = w;
            }
            e.0 += n;
        }
        self
    }
}

pub struct Run {
    pub prop: String,
    pub tier: String,
    pub seed: i64,
    pub started: Instant,
    pub findings: Findings,
    pub verif_dir: String,
}

pub fn verif_dir() -> String {
    std::env::var("VERIF_DIR").unwrap_or_else(|_| "/verif".to_string())
}

impl Run {
    pub fn new(prop: &str, tier: &str) -> Run {
        let seed = std::env::var("VERIF_SEED").ok().and_then(|s| s.parse().ok()).unwrap_or(0);
        let dir = verif_dir();
        Run {
            prop: prop.to_string(),
            tier: tier.to_string(),
            seed,
            started: Instant::now(),
            findings: Findings::load(&format!("{}/known_findings.json", dir)),
            verif_dir: dir,
        }
    }
    pub fn thorough(&self) -> bool {
        self.tier == "thorough"
    }

    /// writes evidence and replays, prints the verdict lines, returns the process exit code
    pub fn finish(&self, acc: Acc, rule: &str, assumptions: &[&str], exhaustive: bool, coverage_extra: Value) -> i32 {
        let wall = self.started.elapsed().as_secs_f64();
        let mut exit = 0;
        // known findings
        for (id, (n, w)) in &acc.known {
            let what = self.findings.describe(id);
            println!("KNOWN-FINDING: property={} {}: {} (witness {}; {} cases)", self.prop, id, what, w, n);
        }
        // violations
        let rdir = format!("{}/replays", self.verif_dir);
        let _ = std::fs::create_dir_all(&rdir);
        if let Ok(rd) = std::fs::read_dir(&rdir) {
            for f in rd.flatten() {
                if f.file_name().to_string_lossy().starts_with(&format!("{}-", self.prop)) {
                    let _ = std::fs::remove_file(f.path());
                }
            }
        }
        for (i, v) in acc.viols.iter().enumerate() {
            let mut case = v.case.clone();
            if let Value::Object(m) = &mut case {
                m.insert("property".into(), json!(self.prop));
                m.insert("message".into(), json!(v.msg));
            }
            let text = serde_json::to_string_pretty(&case).unwrap();
            let h = fnv(&text);
            let path = format!("{}/{}-{:016x}.json", rdir, self.prop, h);
            let _ = std::fs::write(&path, text);
            println!("VIOLATION property={} replay={}", self.prop, path);
            if i < 8 {
                println!("  {}", v.msg.replace('\n', "\n  "));
            }
            exit = 1;
        }
        if std::env::var("VERIF_TRIAGE").is_ok() {
            let mut cl: Vec<_> = acc.classes.iter().collect();
            cl.sort_by_key(|x| std::cmp::Reverse(x.1 .0));
            for (k, (n, w)) in cl.iter().take(60) {
                println!("  class {:>8}  {}  e.g. {}", n, k, w);
            }
        }
        if acc.viol_count as usize > acc.viols.len() {
            println!("  ... {} violations in total ({} written)", acc.viol_count, acc.viols.len());
        }
        let mut cov = json!({
            "evaluations": acc.evals,
            "distinct_nontrivial": acc.nontrivial,
            "rule": rule,
            "samples": acc.samples,
            "exhaustive": exhaustive,
            "known_findings": acc.known.iter().map(|(k, (n, w))| (k.clone(), json!({"cases": n, "witness": w}))).collect::<serde_json::Map<_, _>>(),
            "distinct_outcomes": acc.outcomes.len(),
            "counters": acc.extra,
        });
        if acc.states > 0 || acc.transitions > 0 {
            cov["states"] = json!(acc.states);
            cov["transitions"] = json!(acc.transitions);
            cov["traces_validated_against_impl"] = json!(acc.transitions);
        }
        if let (Value::Object(c), Value::Object(e)) = (&mut cov, coverage_extra) {
            for (k, v) in e {
                c.insert(k, v);
            }
        }
        let ev = json!({
            "property_id": self.prop,
            "tier": self.tier,
            "seed": self.seed,
            "level": "model_checking",
            "coverage": cov,
            "assumptions": assumptions,
            "wall_s": wall,
            "violations": acc.viol_count,
        });
        let edir = format!("{}/evidence", self.verif_dir);
        let _ = std::fs::create_dir_all(&edir);
        let epath = format!("{}/{}.json", edir, self.prop);
        if let Err(e) = std::fs::write(&epath, serde_json::to_string_pretty(&ev).unwrap()) {
            eprintln!("cannot write evidence {}: {}", epath, e);
            return 2;
        }
        println!(
            "{} {}: evaluations={} nontrivial={} states={} transitions={} known_finding_cases={} violations={} wall={:.1}s",
            self.prop,
            self.tier,
            acc.evals,
            acc.nontrivial,
            acc.states,
            acc.transitions,
            acc.known.values().map(|x| x.0).sum::<u64>(),
            acc.viol_count,
            wall
        );
        exit
    }
}

pub fn fnv(s: &str) -> u64 {
    let mut h: u64 = 0xcbf29ce484222325;
    for b in s.bytes() {
        h ^= b as u64;
        h = h.wrapping_mul(0x100000001b3);
    }
    h
}
