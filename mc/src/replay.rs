//! `jpmc replay <file>`: re-execute one recorded violation against the current /repo, without any explorer.
//! The case is executed twice and both executions must agree (determinism guard).

use crate::acc::{Acc, Run};
use serde_json::Value;

fn once(case: &Value, run: &Run) -> Acc {
    match case["kind"].as_str().unwrap_or("") {
        "edge" => crate::checks::nodelist::replay_edge(case, run),
        "path-history" => crate::checks::nodelist::replay_path_history(case, run),
        "query" => crate::checks::common::replay_query(case, run),
        "parse-fresh" => crate::checks::lang::replay_fresh(case, run),
        "parse" | "parse-eval" => crate::checks::lang::replay(case, run),
        "built-query" => crate::checks::robust::replay_built_query(case, run),
        "built-name" => crate::checks::robust::replay_built_name(case, run),
        "eval-ok" => crate::checks::robust::replay_eval_ok(case, run),
        "ladder" => crate::checks::robust::replay_ladder(case, run),
        "built-index" | "built-slice" => crate::checks::robust::replay_built(case, run),
        "ref-slot" => crate::checks::refs::replay_slot(case, run),
        "ref" | "ref-history" | "ref-seq" => crate::checks::refs::replay(case, run),
        "spelling" => crate::checks::spellings::replay(case, run),
        "spelling-after-rejections" => crate::checks::spellings::replay_after_rejections(case, run),
        "spelling-sequence" => crate::checks::spellings::replay_sequence(case, run),
        "views" => crate::checks::views::replay(case, run),
        "schedule" => crate::checks::purity::replay_schedule(case, run),
        "history" => crate::checks::purity::replay_history(case, run),
        "free-running" => crate::checks::purity::replay_free_running(case, run),
        "cold-warm" => crate::checks::purity::replay_cold_warm(case, run),
        "kept-query" => crate::checks::purity::replay_kept_query(case, run),
        "update-history" => crate::checks::purity::replay_update_history(case, run),
        "static" => crate::checks::purity::replay_static(case, run),
        "entry-points" => {
            let mut acc = Acc::new();
            let am = crate::imp::AddrMap::new(&case["doc"]);
            crate::checks::purity::entry_points_pub(&mut acc, case["query"].as_str().unwrap_or("$"), &case["doc"], &am);
            acc
        }
        "law" => crate::checks::compare::replay_law(case, run),
        "timeout" => replay_timeout(case),
        "stall" => {
            // re-run the whole check of that tier under the same watchdog, in a subprocess
            let mut acc = Acc::new();
            let exe = std::env::current_exe().expect("exe");
            let out = std::process::Command::new(exe).args(["check", case["property"].as_str().unwrap_or("C12"), case["tier"].as_str().unwrap_or("quick")]).output();
            let stalled = out.as_ref().map(|o| String::from_utf8_lossy(&o.stdout).contains("the check stalled")).unwrap_or(false);
            println!("re-running the check: stalled again = {}", stalled);
            if stalled {
                acc.viol("the check stalls again".to_string(), case.clone());
            }
            acc
        }
        "compose" => {
            let mut acc = Acc::new();
            let q = case["query"].as_str().unwrap_or("$");
            println!("query: {} -> {:?}", q, crate::imp::parse(q).map(|r| r.map(|j| format!("{:?}", j.segments))));
            acc.viol(format!("compositional parsing of {} must be inspected by hand (see the message in the replay file)", q), case.clone());
            acc
        }
        "query-kept" => crate::checks::ext::replay_kept(case, run),
        "ext" => crate::checks::ext::replay(case, run),
        "query-plain" => crate::checks::common::replay_plain(case, run),
        k => {
            eprintln!("unknown replay kind {:?}", k);
            std::process::exit(2)
        }
    }
}

pub fn replay(path: &str) -> i32 {
    let text = match std::fs::read_to_string(path) {
        Ok(t) => t,
        Err(e) => {
            eprintln!("cannot read {}: {}", path, e);
            return 2;
        }
    };
    // replay files may hold documents deeper than serde_json's default recursion limit (assembled in code)
    let parsed: Result<Value, serde_json::Error> = {
        let mut de = serde_json::Deserializer::from_str(&text);
        de.disable_recursion_limit();
        serde::de::Deserialize::deserialize(&mut de)
    };
    let case: Value = match parsed {
        Ok(v) => v,
        Err(e) => {
            eprintln!("{} is not JSON: {}", path, e);
            return 2;
        }
    };
    let prop = case["property"].as_str().unwrap_or("C00").to_string();
    let run = Run::new(&prop, "quick");
    let a = once(&case, &run);
    let b = once(&case, &run);
    // both executions must agree on the verdict; when both violate, a different number of messages is itself part
    // of the finding (the code under test answers differently on repetition), not a problem of the replay
    if (a.viol_count == 0) != (b.viol_count == 0) {
        eprintln!("replay is not deterministic: {} vs {} violations", a.viol_count, b.viol_count);
        return 2;
    }
    if a.viol_count != b.viol_count {
        println!("(the two executions of the replay report {} and {} violations: the code under test is not deterministic)", a.viol_count, b.viol_count);
    }
    for (id, (_, w)) in &a.known {
        println!("KNOWN-FINDING: property={} {} ({})", prop, id, w);
    }
    if a.viol_count > 0 {
        for v in &a.viols {
            println!("{}", v.msg);
        }
        println!("VIOLATION property={} replay={}", prop, path);
        1
    } else {
        println!("no violation: the recorded case now satisfies {}", prop);
        0
    }
}


/// a case that exceeded the wall-clock horizon: re-run it in a subprocess-free way under a fresh watchdog
fn replay_timeout(case: &Value) -> Acc {
    let mut acc = Acc::new();
    let c = &case["case"];
    let q = c["query"].as_str().unwrap_or("$").to_string();
    let doc = c["doc"].clone();
    println!("query: {}  document: {}", q, doc);
    let (tx, rx) = std::sync::mpsc::channel();
    let q2 = q.clone();
    std::thread::spawn(move || {
        let am = crate::imp::AddrMap::new(&doc);
        let r = match crate::imp::parse(&q2) {
            Ok(Ok(jq)) => format!("{:?}", crate::imp::run_parsed(&jq, &doc, &am).short()),
            other => format!("{:?}", other.map(|r| r.is_ok())),
        };
        let _ = tx.send(r);
    });
    match rx.recv_timeout(std::time::Duration::from_secs(20)) {
        Ok(r) => println!("returned within the horizon: {}", r),
        Err(_) => {
            acc.viol(format!("{} does not return within 20 s", q), case.clone());
            // the worker thread cannot be stopped: report and leave
            println!("{} does not return within 20 s", q);
            println!("VIOLATION property={} replay=(this file)", case["property"].as_str().unwrap_or("C08"));
            std::process::exit(1);
        }
    }
    acc
}
