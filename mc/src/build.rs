//! Model AST -> jsonpath-rust AST by direct construction of the public model types (no parser, no `try_new`):
//! the "programmatically built query" of C08. For valid queries the result must equal what the parser builds
//! (machinery guard `mirrors_parser`); ill-typed function expressions are built the same way.

use crate::model::ast::*;
use jsonpath_rust::parser::model as m;

fn strip(raw: &str) -> String {
    raw[1..raw.len() - 1].to_string()
}

fn lit(l: &Lit) -> m::Literal {
    match l {
        Lit::Num { val, raw, int_form } => {
            if *int_form {
                m::Literal::Int(raw.parse::<i64>().unwrap_or(*val as i64))
            } else {
                m::Literal::Float(*val)
            }
        }
        Lit::Str { raw, .. } => m::Literal::String(strip(raw)),
        Lit::Bool(b) => m::Literal::Bool(*b),
        Lit::Null => m::Literal::Null,
    }
}

fn sel(s: &Sel) -> Option<m::Selector> {
    Some(match s {
        Sel::Name { raw, .. } => m::Selector::Name(raw.clone()),
        Sel::Wild => m::Selector::Wildcard,
        Sel::Index(i) => m::Selector::Index(*i),
        Sel::Slice(a, b, c) => m::Selector::Slice(*a, *b, *c),
        Sel::Filter(e) => m::Selector::Filter(filter(e)?),
    })
}

pub fn segment(s: &Seg) -> Option<m::Segment> {
    let inner = if s.sels.len() == 1 { m::Segment::Selector(sel(&s.sels[0])?) } else { m::Segment::Selectors(s.sels.iter().map(sel).collect::<Option<Vec<_>>>()?) };
    Some(if s.desc { m::Segment::Descendant(Box::new(inner)) } else { inner })
}

pub fn query(q: &Query) -> Option<m::JpQuery> {
    Some(m::JpQuery::new(q.segs.iter().map(segment).collect::<Option<Vec<_>>>()?))
}

fn singular(q: &Query) -> Option<m::SingularQuery> {
    if !q.is_singular() {
        return None;
    }
    let segs: Vec<m::SingularQuerySegment> = q
        .segs
        .iter()
        .map(|s| match &s.sels[0] {
            Sel::Name { raw, .. } => m::SingularQuerySegment::Name(raw.clone()),
            Sel::Index(i) => m::SingularQuerySegment::Index(*i),
            _ => unreachable!(),
        })
        .collect();
    Some(if q.abs { m::SingularQuery::Root(segs) } else { m::SingularQuery::Current(segs) })
}

fn test_of(q: &Query) -> Option<m::Test> {
    Some(if q.abs { m::Test::AbsQuery(query(q)?) } else { m::Test::RelQuery(q.segs.iter().map(segment).collect::<Option<Vec<_>>>()?) })
}

fn fnarg(e: &Expr) -> Option<m::FnArg> {
    Some(match e {
        Expr::BareLit(l) => m::FnArg::Literal(lit(l)),
        Expr::Test(q) => m::FnArg::Test(Box::new(test_of(q)?)),
        Expr::FuncTest(f) => m::FnArg::Test(Box::new(m::Test::Function(Box::new(func(f)?)))),
        other => m::FnArg::Filter(filter(other)?),
    })
}

fn func(f: &FnCall) -> Option<m::TestFunction> {
    let a: Vec<m::FnArg> = f.args.iter().map(fnarg).collect::<Option<Vec<_>>>()?;
    let mut it = a.into_iter();
    Some(match (f.name.as_str(), f.args.len()) {
        ("length", 1) => m::TestFunction::Length(Box::new(it.next()?)),
        ("value", 1) => m::TestFunction::Value(it.next()?),
        ("count", 1) => m::TestFunction::Count(it.next()?),
        ("search", 2) => m::TestFunction::Search(it.next()?, it.next()?),
        ("match", 2) => m::TestFunction::Match(it.next()?, it.next()?),
        ("length" | "value" | "count" | "search" | "match", _) => return None,
        (name, _) => m::TestFunction::Custom(name.to_string(), it.collect()),
    })
}

fn cmpable(c: &Cmpable) -> Option<m::Comparable> {
    Some(match c {
        Cmpable::Lit(l) => m::Comparable::Literal(lit(l)),
        Cmpable::Query(q) => m::Comparable::SingularQuery(singular(q)?),
        Cmpable::Func(f) => m::Comparable::Function(func(f)?),
    })
}

fn atom(e: &Expr, not: bool) -> Option<m::FilterAtom> {
    Some(match e {
        Expr::Paren(x) => m::FilterAtom::Filter { expr: Box::new(filter(x)?), not },
        Expr::Test(q) => m::FilterAtom::Test { expr: Box::new(test_of(q)?), not },
        Expr::FuncTest(f) => m::FilterAtom::Test { expr: Box::new(m::Test::Function(Box::new(func(f)?))), not },
        Expr::Cmp(l, op, r) if !not => {
            let (l, r) = (cmpable(l)?, cmpable(r)?);
            m::FilterAtom::Comparison(Box::new(match op {
                Op::Eq => m::Comparison::Eq(l, r),
                Op::Ne => m::Comparison::Ne(l, r),
                Op::Lt => m::Comparison::Lt(l, r),
                Op::Le => m::Comparison::Lte(l, r),
                Op::Gt => m::Comparison::Gt(l, r),
                Op::Ge => m::Comparison::Gte(l, r),
            }))
        }
        _ => return None,
    })
}

/// the parser's shape: Or / And lists are flattened only when they have more than one operand
pub fn filter(e: &Expr) -> Option<m::Filter> {
    Some(match e {
        Expr::Or(v) => {
            let ands: Vec<m::Filter> = v.iter().map(and_level).collect::<Option<Vec<_>>>()?;
            if ands.len() == 1 {
                ands.into_iter().next()?
            } else {
                m::Filter::Or(ands)
            }
        }
        other => and_level(other)?,
    })
}

fn and_level(e: &Expr) -> Option<m::Filter> {
    Some(match e {
        Expr::And(v) => {
            let atoms: Vec<m::Filter> = v.iter().map(|x| atom_level(x).map(m::Filter::Atom)).collect::<Option<Vec<_>>>()?;
            if atoms.len() == 1 {
                atoms.into_iter().next()?
            } else {
                m::Filter::And(atoms)
            }
        }
        Expr::Or(_) => return None,
        other => m::Filter::Atom(atom_level(other)?),
    })
}

fn atom_level(e: &Expr) -> Option<m::FilterAtom> {
    match e {
        Expr::Not(x) => atom(x, true),
        Expr::Or(_) | Expr::And(_) | Expr::BareLit(_) => None,
        other => atom(other, false),
    }
}
