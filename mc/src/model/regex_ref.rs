//! A small backtracking matcher for the fragment of regular expressions on which I-Regexp (RFC 9485)
//! and the `regex` crate agree, plus `^` / `$` as assertions (DESIGN.md section 3.5).
//! Everything outside that fragment is reported as `Unsupported` so that the caller skips the case
//! instead of guessing.

#[derive(Clone, Debug, PartialEq)]
pub enum Re {
    Char(char),
    Any,
    Class { neg: bool, items: Vec<(char, char)> },
    Start,
    End,
    Alt(Vec<Re>),
    Concat(Vec<Re>),
    Repeat { inner: Box<Re>, min: u32, max: Option<u32> },
}

#[derive(Clone, Copy, Debug, PartialEq, Eq)]
pub enum ReErr {
    /// not a regular expression in either dialect
    Invalid,
    /// valid or invalid depending on the dialect, or a construct the matcher does not implement
    Unsupported,
}

struct P {
    s: Vec<char>,
    i: usize,
}

pub fn parse(p: &str) -> Result<Re, ReErr> {
    let mut ps = P { s: p.chars().collect(), i: 0 };
    let r = ps.alt(0)?;
    if ps.i != ps.s.len() {
        // an unmatched ')'
        return Err(ReErr::Invalid);
    }
    Ok(r)
}

impl P {
    fn peek(&self) -> Option<char> {
        self.s.get(self.i).copied()
    }

    fn alt(&mut self, depth: u32) -> Result<Re, ReErr> {
        if depth > 50 {
            return Err(ReErr::Unsupported);
        }
        let mut branches = vec![self.concat(depth)?];
        while self.peek() == Some('|') {
            self.i += 1;
            branches.push(self.concat(depth)?);
        }
        Ok(if branches.len() == 1 { branches.pop().unwrap() } else { Re::Alt(branches) })
    }

    fn concat(&mut self, depth: u32) -> Result<Re, ReErr> {
        let mut items: Vec<Re> = vec![];
        loop {
            let c = match self.peek() {
                None | Some('|') | Some(')') => break,
                Some(c) => c,
            };
            let atom = match c {
                '(' => {
                    self.i += 1;
                    if self.peek() == Some('?') {
                        return Err(ReErr::Unsupported);
                    }
                    let r = self.alt(depth + 1)?;
                    if self.peek() != Some(')') {
                        return Err(ReErr::Invalid);
                    }
                    self.i += 1;
                    r
                }
                '*' | '+' | '?' => return Err(ReErr::Invalid),
                '{' | '}' | ']' => return Err(ReErr::Unsupported),
                '[' => self.class()?,
                '.' => {
                    self.i += 1;
                    Re::Any
                }
                '^' => {
                    self.i += 1;
                    Re::Start
                }
                '$' => {
                    self.i += 1;
                    Re::End
                }
                '\\' => {
                    self.i += 1;
                    Re::Char(self.escape()?)
                }
                c => {
                    self.i += 1;
                    Re::Char(c)
                }
            };
            let q = match self.peek() {
                Some('*') => {
                    self.i += 1;
                    Some((0, None))
                }
                Some('+') => {
                    self.i += 1;
                    Some((1, None))
                }
                Some('?') => {
                    self.i += 1;
                    Some((0, Some(1)))
                }
                Some('{') => Some(self.range_quant()?),
                _ => None,
            };
            let atom = match q {
                None => atom,
                Some((min, max)) => {
                    if matches!(atom, Re::Start | Re::End) {
                        return Err(ReErr::Unsupported);
                    }
                    // a second quantifier (`a**`, `a*?`) is dialect-dependent
                    if matches!(self.peek(), Some('*') | Some('+') | Some('?') | Some('{')) {
                        return Err(ReErr::Unsupported);
                    }
                    Re::Repeat { inner: Box::new(atom), min, max }
                }
            };
            items.push(atom);
        }
        Ok(if items.len() == 1 { items.pop().unwrap() } else { Re::Concat(items) })
    }

    fn number(&mut self) -> Option<u32> {
        let st = self.i;
        let mut v: u32 = 0;
        while let Some(d) = self.peek().and_then(|c| c.to_digit(10)) {
            v = v.checked_mul(10)?.checked_add(d)?;
            self.i += 1;
            if self.i - st > 3 {
                return None;
            }
        }
        if self.i == st {
            None
        } else {
            Some(v)
        }
    }

    /// `{n}` `{n,}` `{n,m}`; anything else after `{` is dialect-dependent
    fn range_quant(&mut self) -> Result<(u32, Option<u32>), ReErr> {
        self.i += 1;
        let min = self.number().ok_or(ReErr::Unsupported)?;
        match self.peek() {
            Some('}') => {
                self.i += 1;
                Ok((min, Some(min)))
            }
            Some(',') => {
                self.i += 1;
                if self.peek() == Some('}') {
                    self.i += 1;
                    return Ok((min, None));
                }
                let max = self.number().ok_or(ReErr::Unsupported)?;
                if self.peek() != Some('}') {
                    return Err(ReErr::Unsupported);
                }
                self.i += 1;
                if max < min {
                    return Err(ReErr::Invalid);
                }
                Ok((min, Some(max)))
            }
            _ => Err(ReErr::Unsupported),
        }
    }

    /// single-character escapes shared by both dialects
    fn escape(&mut self) -> Result<char, ReErr> {
        let c = match self.peek() {
            None => return Err(ReErr::Invalid),
            Some(c) => c,
        };
        self.i += 1;
        Ok(match c {
            '(' | ')' | '*' | '+' | '-' | '.' | '?' | '[' | '\\' | ']' | '^' | '{' | '|' | '}' | '$' => c,
            'n' => '\n',
            'r' => '\r',
            't' => '\t',
            _ => return Err(ReErr::Unsupported),
        })
    }

    fn class(&mut self) -> Result<Re, ReErr> {
        self.i += 1;
        let neg = if self.peek() == Some('^') {
            self.i += 1;
            true
        } else {
            false
        };
        if matches!(self.peek(), Some(']')) {
            return Err(ReErr::Unsupported);
        }
        let mut items = vec![];
        let mut first = true;
        loop {
            let c = match self.peek() {
                None => return Err(ReErr::Invalid),
                Some(c) => c,
            };
            if c == ']' {
                self.i += 1;
                break;
            }
            let lo = match c {
                '\\' => {
                    self.i += 1;
                    self.escape()?
                }
                '[' | '&' | '~' => return Err(ReErr::Unsupported),
                '-' => {
                    // a literal '-' only as the first or last member
                    self.i += 1;
                    if first || self.peek() == Some(']') {
                        '-'
                    } else {
                        return Err(ReErr::Unsupported);
                    }
                }
                c => {
                    self.i += 1;
                    c
                }
            };
            first = false;
            if self.peek() == Some('-') && self.s.get(self.i + 1).map_or(false, |c| *c != ']') {
                self.i += 1;
                let hi = match self.peek() {
                    None => return Err(ReErr::Invalid),
                    Some('\\') => {
                        self.i += 1;
                        self.escape()?
                    }
                    Some('[') | Some('-') => return Err(ReErr::Unsupported),
                    Some(c) => {
                        self.i += 1;
                        c
                    }
                };
                if hi < lo {
                    return Err(ReErr::Invalid);
                }
                items.push((lo, hi));
            } else {
                items.push((lo, lo));
            }
        }
        Ok(Re::Class { neg, items })
    }
}

fn m(re: &Re, s: &[char], pos: usize, k: &mut dyn FnMut(usize) -> bool) -> bool {
    match re {
        Re::Char(c) => pos < s.len() && s[pos] == *c && k(pos + 1),
        Re::Any => pos < s.len() && s[pos] != '\n' && k(pos + 1),
        Re::Class { neg, items } => {
            if pos >= s.len() {
                return false;
            }
            let c = s[pos];
            let inside = items.iter().any(|(lo, hi)| *lo <= c && c <= *hi);
            inside != *neg && k(pos + 1)
        }
        Re::Start => pos == 0 && k(pos),
        Re::End => pos == s.len() && k(pos),
        Re::Alt(v) => {
            for b in v {
                if m(b, s, pos, k) {
                    return true;
                }
            }
            false
        }
        Re::Concat(v) => m_seq(v, s, pos, k),
        Re::Repeat { inner, min, max } => m_rep(inner, *min, *max, s, pos, 0, k),
    }
}

fn m_seq(v: &[Re], s: &[char], pos: usize, k: &mut dyn FnMut(usize) -> bool) -> bool {
    match v.split_first() {
        None => k(pos),
        Some((h, t)) => m(h, s, pos, &mut |p| m_seq(t, s, p, k)),
    }
}

fn m_rep(inner: &Re, min: u32, max: Option<u32>, s: &[char], pos: usize, done: u32, k: &mut dyn FnMut(usize) -> bool) -> bool {
    // one more non-empty iteration (empty iterations never enable anything except reaching `min`)
    if max.map_or(true, |mx| done < mx) {
        let more = m(inner, s, pos, &mut |p| p != pos && m_rep(inner, min, max, s, p, done + 1, k));
        if more {
            return true;
        }
    }
    if done >= min {
        return k(pos);
    }
    // `min` not reached: the remaining iterations can only be empty ones
    if m(inner, s, pos, &mut |p| p == pos) {
        return k(pos);
    }
    false
}

/// RFC 9535 `match`: the entire string matches
pub fn full_match(re: &Re, s: &str) -> bool {
    let cs: Vec<char> = s.chars().collect();
    let n = cs.len();
    m(re, &cs, 0, &mut |p| p == n)
}

/// RFC 9535 `search`: some substring matches
pub fn search(re: &Re, s: &str) -> bool {
    let cs: Vec<char> = s.chars().collect();
    for st in 0..=cs.len() {
        if m(re, &cs, st, &mut |_| true) {
            return true;
        }
    }
    false
}
