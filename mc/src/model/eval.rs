//! Reference evaluator: a direct transcription of RFC 9535 sections 2.3 - 2.5 over `serde_json::Value`,
//! using the value's inherent API only (never the `Queryable` trait of the code under test).
//!
//! `EDev` holds the known-finding deviation switches; with all of them off the evaluator is the strict
//! RFC semantics. Each switch perturbs exactly one rule and is documented next to it.

use super::ast::*;
use super::regex_ref;
use serde_json::Value;
use std::borrow::Cow;

#[derive(Clone, Debug, PartialEq, Eq, Hash, PartialOrd, Ord)]
pub enum Step {
    Name(String),
    Index(usize),
}
pub type Loc = Vec<Step>;

#[derive(Clone, Copy, Debug, Default, PartialEq, Eq, Hash)]
pub struct EDev {
    /// F-C02-union-order: a multi-selector segment applies selector 1 to the whole input list, then
    /// selector 2, ... (for a descendant segment: to the concatenated descendant expansions).
    pub union_selector_major: bool,
    /// F-C01-name-escapes: the member looked up is the raw selector text with `\\`->`\`, `\/`->`/`, every
    /// other escape kept verbatim, then all leading/trailing quote characters of the enclosing kind trimmed.
    pub legacy_name_lookup: bool,
    /// F-C03-path-rendering: paths are rendered the way `Pointer::key` does (raw selector text echoed,
    /// member names unescaped, names that start and end with `'` not quoted again).
    pub legacy_path: bool,
    /// F-C04-raw-string-literal: a string literal denotes its source text between the quotes, undecoded.
    pub raw_string_literal: bool,
    /// F-C05-filter-on-current: inside a filter, a filter selector applied directly to `@` evaluates its
    /// expression on `@` itself and yields a Boolean instead of a nodelist.
    pub filter_on_current_bool: bool,
}

impl EDev {
    pub const NAMES: [&'static str; 5] = [
        "union_selector_major",
        "legacy_name_lookup",
        "legacy_path",
        "raw_string_literal",
        "filter_on_current_bool",
    ];
    pub fn from_mask(m: u32) -> EDev {
        EDev {
            union_selector_major: m & 1 != 0,
            legacy_name_lookup: m & 2 != 0,
            legacy_path: m & 4 != 0,
            raw_string_literal: m & 8 != 0,
            filter_on_current_bool: m & 16 != 0,
        }
    }
    pub const ALL_MASK: u32 = 31;
}

#[derive(Clone, Debug)]
pub struct Node<'a> {
    pub v: &'a Value,
    pub loc: Loc,
    /// path text as the implementation's legacy renderer would produce it for the route taken
    pub lpath: String,
}

/// an evaluation that leaves the modelled fragment (e.g. a regular expression construct the reference
/// matcher does not implement); the caller skips the case and counts it
#[derive(Clone, Debug, PartialEq)]
pub struct Unsupported(pub &'static str);

pub type ER<T> = Result<T, Unsupported>;

pub struct Ctx<'a> {
    pub root: &'a Value,
    pub dev: EDev,
}

pub fn resolve<'a>(root: &'a Value, loc: &[Step]) -> Option<&'a Value> {
    let mut v = root;
    for s in loc {
        v = match (s, v) {
            (Step::Name(n), Value::Object(m)) => m.get(n)?,
            (Step::Index(i), Value::Array(a)) => a.get(*i)?,
            _ => return None,
        };
    }
    Some(v)
}

pub fn legacy_key_step(path: &str, key: &str) -> String {
    if key.starts_with('\'') && key.ends_with('\'') {
        format!("{}[{}]", path, key)
    } else {
        format!("{}['{}']", path, key)
    }
}

/// the member name the implementation looks up for a name selector spelled `raw`
pub fn legacy_key(raw: &str) -> String {
    // normalize_json_key
    let mut result = String::new();
    let mut chars = raw.chars().peekable();
    while let Some(c) = chars.next() {
        if c == '\\' {
            if let Some(&next) = chars.peek() {
                match next {
                    '\\' => {
                        result.push('\\');
                        chars.next();
                    }
                    '/' => {
                        result.push('/');
                        chars.next();
                    }
                    '\'' | '"' | 'b' | 'f' | 'n' | 'r' | 't' | 'u' => {
                        result.push('\\');
                        result.push(next);
                        chars.next();
                    }
                    _ => result.push('\\'),
                }
            } else {
                result.push('\\');
            }
        } else {
            result.push(c);
        }
    }
    // <Value as Queryable>::get
    let key: &str = &result;
    let key = if key.starts_with('\'') && key.ends_with('\'') {
        key.trim_matches('\'')
    } else if key.starts_with('"') && key.ends_with('"') {
        key.trim_matches('"')
    } else {
        key
    };
    key.to_string()
}

fn child_name<'a>(n: &Node<'a>, key: &str, v: &'a Value, path_key: &str) -> Node<'a> {
    let mut loc = n.loc.clone();
    loc.push(Step::Name(key.to_string()));
    Node { v, loc, lpath: legacy_key_step(&n.lpath, path_key) }
}

fn child_idx<'a>(n: &Node<'a>, i: usize, v: &'a Value) -> Node<'a> {
    let mut loc = n.loc.clone();
    loc.push(Step::Index(i));
    Node { v, loc, lpath: format!("{}[{}]", n.lpath, i) }
}

pub fn children<'a>(n: &Node<'a>) -> Vec<Node<'a>> {
    match n.v {
        Value::Array(a) => a.iter().enumerate().map(|(i, v)| child_idx(n, i, v)).collect(),
        Value::Object(m) => m.iter().map(|(k, v)| child_name(n, k, v, k)).collect(),
        _ => vec![],
    }
}

/// node itself followed by its descendants, pre-order, children in document order (RFC 2.5.2.2 permits
/// other orders; order-sensitive oracles do not rely on this particular one)
pub fn descendants_or_self<'a>(n: &Node<'a>, out: &mut Vec<Node<'a>>) {
    out.push(n.clone());
    for c in children(n) {
        descendants_or_self(&c, out);
    }
}

/// RFC 9535 section 2.3.4.2.2, transcribed
pub fn slice_indices(len: usize, start: Option<i64>, end: Option<i64>, step: Option<i64>) -> Vec<usize> {
    let len = len as i128;
    let step = step.unwrap_or(1) as i128;
    if step == 0 {
        return vec![];
    }
    let (ds, de) = if step >= 0 { (0, len) } else { (len - 1, -len - 1) };
    let start = start.map(|x| x as i128).unwrap_or(ds);
    let end = end.map(|x| x as i128).unwrap_or(de);
    let norm = |i: i128| if i >= 0 { i } else { len + i };
    let (n_start, n_end) = (norm(start), norm(end));
    let (lower, upper) = if step >= 0 {
        (n_start.max(0).min(len), n_end.max(0).min(len))
    } else {
        (n_end.max(-1).min(len - 1), n_start.max(-1).min(len - 1))
    };
    let mut out = vec![];
    if step > 0 {
        let mut i = lower;
        while i < upper {
            out.push(i as usize);
            i += step;
        }
    } else {
        let mut i = upper;
        while lower < i {
            out.push(i as usize);
            i += step;
        }
    }
    out
}

impl<'a> Ctx<'a> {
    pub fn root_node(&self) -> Node<'a> {
        Node { v: self.root, loc: vec![], lpath: "$".to_string() }
    }

    pub fn apply_sel(&self, sel: &Sel, n: &Node<'a>, out: &mut Vec<Node<'a>>) -> ER<()> {
        match sel {
            Sel::Name { val, raw } => {
                if let Value::Object(m) = n.v {
                    let key: Cow<str> =
                        if self.dev.legacy_name_lookup { Cow::Owned(legacy_key(raw)) } else { Cow::Borrowed(val) };
                    if let Some(v) = m.get(key.as_ref()) {
                        out.push(child_name(n, &key, v, raw));
                    }
                }
            }
            Sel::Wild => out.extend(children(n)),
            Sel::Index(i) => {
                if let Value::Array(a) = n.v {
                    let len = a.len() as i128;
                    let k = if *i >= 0 { *i as i128 } else { len + *i as i128 };
                    if k >= 0 && k < len {
                        out.push(child_idx(n, k as usize, &a[k as usize]));
                    }
                }
            }
            Sel::Slice(s, e, st) => {
                if let Value::Array(a) = n.v {
                    for i in slice_indices(a.len(), *s, *e, *st) {
                        out.push(child_idx(n, i, &a[i]));
                    }
                }
            }
            Sel::Filter(e) => {
                for c in children(n) {
                    if self.eval_expr(e, &c)? {
                        out.push(c);
                    }
                }
            }
        }
        Ok(())
    }

    pub fn apply_seg(&self, seg: &Seg, input: &[Node<'a>]) -> ER<Vec<Node<'a>>> {
        let mut out = vec![];
        if self.dev.union_selector_major && seg.sels.len() > 1 {
            let expanded: Vec<Node<'a>>;
            let base: &[Node<'a>] = if seg.desc {
                let mut d = vec![];
                for n in input {
                    descendants_or_self(n, &mut d);
                }
                expanded = d;
                &expanded
            } else {
                input
            };
            for sel in &seg.sels {
                for n in base {
                    self.apply_sel(sel, n, &mut out)?;
                }
            }
            return Ok(out);
        }
        for n in input {
            if seg.desc {
                let mut d = vec![];
                descendants_or_self(n, &mut d);
                for x in &d {
                    for sel in &seg.sels {
                        self.apply_sel(sel, x, &mut out)?;
                    }
                }
            } else {
                for sel in &seg.sels {
                    self.apply_sel(sel, n, &mut out)?;
                }
            }
        }
        Ok(out)
    }

    pub fn apply_segs(&self, segs: &[Seg], start: Vec<Node<'a>>) -> ER<Vec<Node<'a>>> {
        let mut cur = start;
        for s in segs {
            cur = self.apply_seg(s, &cur)?;
        }
        Ok(cur)
    }

    pub fn eval_query(&self, q: &Query) -> ER<Vec<Node<'a>>> {
        self.apply_segs(&q.segs, vec![self.root_node()])
    }

    /// a filter-query evaluated with `@` bound to `cur`
    fn eval_filter_query(&self, q: &Query, cur: &Node<'a>) -> ER<FqRes<'a>> {
        if q.abs {
            return Ok(FqRes::Nodes(self.apply_segs(&q.segs, vec![self.root_node()])?));
        }
        if self.dev.filter_on_current_bool {
            if let Some(first) = q.segs.first() {
                let has_filter = first.sels.iter().any(|s| matches!(s, Sel::Filter(_)));
                if has_filter && !first.desc && first.sels.len() == 1 {
                    // the filter expression is evaluated on `@` itself and yields a Boolean; any further
                    // segment turns that into nothing
                    if let Sel::Filter(e) = &first.sels[0] {
                        let b = self.eval_expr(e, cur)?;
                        return Ok(if q.segs.len() == 1 { FqRes::Bool(b) } else { FqRes::Nodes(vec![]) });
                    }
                }
                if has_filter && first.desc && first.sels.len() == 1 {
                    // under `..` the `@` node itself contributes nothing, proper descendants behave
                    let mut d = vec![];
                    descendants_or_self(cur, &mut d);
                    let mut out = vec![];
                    for x in d.iter().skip(1) {
                        self.apply_sel(&first.sels[0], x, &mut out)?;
                    }
                    return Ok(FqRes::Nodes(self.apply_segs(&q.segs[1..], out)?));
                }
                if has_filter {
                    return Err(Unsupported("union with a filter selector directly on @ (legacy emulation)"));
                }
            }
        }
        Ok(FqRes::Nodes(self.apply_segs(&q.segs, vec![cur.clone()])?))
    }

    pub fn eval_expr(&self, e: &Expr, cur: &Node<'a>) -> ER<bool> {
        Ok(match e {
            Expr::Or(v) => {
                for x in v {
                    if self.eval_expr(x, cur)? {
                        return Ok(true);
                    }
                }
                false
            }
            Expr::And(v) => {
                for x in v {
                    if !self.eval_expr(x, cur)? {
                        return Ok(false);
                    }
                }
                true
            }
            Expr::Not(x) => !self.eval_expr(x, cur)?,
            Expr::Paren(x) => self.eval_expr(x, cur)?,
            Expr::Test(q) => match self.eval_filter_query(q, cur)? {
                FqRes::Nodes(n) => !n.is_empty(),
                // legacy: a Boolean is not a nodelist, the existence test is false
                FqRes::Bool(_) => false,
            },
            Expr::FuncTest(f) => match self.eval_fn(f, cur)? {
                FnRes::Logical(b) => b,
                FnRes::Nodes(n) => !n.is_empty(),
                FnRes::Value(_) => return Err(Unsupported("ValueType function used as a test")),
            },
            Expr::Cmp(l, op, r) => {
                let l = self.eval_cmpable(l, cur)?;
                let r = self.eval_cmpable(r, cur)?;
                compare(l.as_deref(), *op, r.as_deref())
            }
            Expr::BareLit(_) => return Err(Unsupported("bare literal as logical expression")),
        })
    }

    fn lit_value(&self, l: &Lit) -> Value {
        match l {
            Lit::Num { val, raw, int_form } => {
                if *int_form {
                    if let Ok(i) = raw.parse::<i64>() {
                        return Value::from(i);
                    }
                }
                Value::from(*val)
            }
            Lit::Str { val, raw } => {
                if self.dev.raw_string_literal {
                    let inner: String = {
                        let cs: Vec<char> = raw.chars().collect();
                        cs[1..cs.len() - 1].iter().collect()
                    };
                    Value::String(inner)
                } else {
                    Value::String(val.clone())
                }
            }
            Lit::Bool(b) => Value::Bool(*b),
            Lit::Null => Value::Null,
        }
    }

    fn eval_cmpable(&self, c: &Cmpable, cur: &Node<'a>) -> ER<Option<Cow<'a, Value>>> {
        Ok(match c {
            Cmpable::Lit(l) => Some(Cow::Owned(self.lit_value(l))),
            Cmpable::Query(q) => {
                let start = if q.abs { self.root_node() } else { cur.clone() };
                let n = self.apply_segs(&q.segs, vec![start])?;
                match n.len() {
                    0 => None,
                    1 => Some(Cow::Borrowed(n[0].v)),
                    _ => return Err(Unsupported("non-singular comparable")),
                }
            }
            Cmpable::Func(f) => match self.eval_fn(f, cur)? {
                FnRes::Value(v) => v,
                _ => return Err(Unsupported("non-ValueType function as comparable")),
            },
        })
    }

    /// argument converted to ValueType (RFC 2.4.3: literal, singular query, ValueType function)
    fn arg_value(&self, a: &Expr, cur: &Node<'a>) -> ER<Option<Cow<'a, Value>>> {
        Ok(match a {
            Expr::BareLit(l) => Some(Cow::Owned(self.lit_value(l))),
            Expr::Test(q) => {
                if !q.is_singular() {
                    return Err(Unsupported("non-singular query as ValueType argument"));
                }
                match self.eval_filter_query(q, cur)? {
                    FqRes::Nodes(n) => match n.len() {
                        0 => None,
                        1 => Some(Cow::Borrowed(n[0].v)),
                        _ => return Err(Unsupported("non-singular result")),
                    },
                    FqRes::Bool(_) => return Err(Unsupported("legacy boolean as value")),
                }
            }
            Expr::FuncTest(f) => match self.eval_fn(f, cur)? {
                FnRes::Value(v) => v,
                _ => return Err(Unsupported("non-ValueType function as ValueType argument")),
            },
            _ => return Err(Unsupported("logical expression as ValueType argument")),
        })
    }

    /// argument converted to NodesType; the legacy Boolean of `filter_on_current_bool` is passed through
    fn arg_nodes(&self, a: &Expr, cur: &Node<'a>) -> ER<FqRes<'a>> {
        match a {
            Expr::Test(q) => self.eval_filter_query(q, cur),
            _ => Err(Unsupported("non-query as NodesType argument")),
        }
    }

    pub fn eval_fn(&self, f: &FnCall, cur: &Node<'a>) -> ER<FnRes<'a>> {
        let argn = |n: usize| -> ER<()> {
            if f.args.len() == n {
                Ok(())
            } else {
                Err(Unsupported("arity"))
            }
        };
        match f.name.as_str() {
            "length" => {
                argn(1)?;
                let v = self.arg_value(&f.args[0], cur)?;
                let r = match v.as_deref() {
                    Some(Value::String(s)) => Some(s.chars().count()),
                    Some(Value::Array(a)) => Some(a.len()),
                    Some(Value::Object(m)) => Some(m.len()),
                    _ => None,
                };
                Ok(FnRes::Value(r.map(|n| Cow::Owned(Value::from(n as i64)))))
            }
            "count" => {
                argn(1)?;
                let n = match self.arg_nodes(&f.args[0], cur)? {
                    FqRes::Nodes(n) => n.len(),
                    // legacy: count of a Boolean value is 1
                    FqRes::Bool(_) => 1,
                };
                Ok(FnRes::Value(Some(Cow::Owned(Value::from(n as i64)))))
            }
            "value" => {
                argn(1)?;
                match self.arg_nodes(&f.args[0], cur)? {
                    FqRes::Nodes(n) => {
                        Ok(FnRes::Value(if n.len() == 1 { Some(Cow::Borrowed(n[0].v)) } else { None }))
                    }
                    FqRes::Bool(_) => Err(Unsupported("legacy boolean under value()")),
                }
            }
            "match" | "search" => {
                argn(2)?;
                let s = self.arg_value(&f.args[0], cur)?;
                let p = self.arg_value(&f.args[1], cur)?;
                let (s, p) = match (s.as_deref(), p.as_deref()) {
                    (Some(Value::String(s)), Some(Value::String(p))) => (s.clone(), p.clone()),
                    _ => return Ok(FnRes::Logical(false)),
                };
                // F-raw-string-literal: a pattern written as a literal keeps its escaping backslashes and the
                // implementation compensates by collapsing every `\\\\` pair to `\\`
                let p = if self.dev.raw_string_literal && matches!(f.args[1], Expr::BareLit(Lit::Str { .. })) { p.replace("\\\\", "\\") } else { p };
                let go_len = s.len();
                match regex_ref::parse(&p) {
                    Ok(re) => {
                        let full = f.name == "match";
                        let go = move || if full { regex_ref::full_match(&re, &s) } else { regex_ref::search(&re, &s) };
                        // the reference matcher recurses once or twice per character: long subjects (the size
                        // families go up to 65537 characters) are matched on a thread with a stack to suit
                        let long = go_len > 2048;
                        Ok(FnRes::Logical(if long {
                            std::thread::Builder::new().stack_size(1usize << 30).spawn(go).expect("thread for a long subject").join().expect("reference matcher")
                        } else {
                            go()
                        }))
                    }
                    Err(regex_ref::ReErr::Invalid) => Ok(FnRes::Logical(false)),
                    Err(regex_ref::ReErr::Unsupported) => Err(Unsupported("regular expression outside the modelled dialect")),
                }
            }
            _ => Err(Unsupported("function not defined by RFC 9535")),
        }
    }
}

pub enum FqRes<'a> {
    Nodes(Vec<Node<'a>>),
    Bool(bool),
}

pub enum FnRes<'a> {
    Value(Option<Cow<'a, Value>>),
    Logical(bool),
    Nodes(Vec<Node<'a>>),
}

/// RFC 9535 section 2.3.5.2.2 equality on JSON values
pub fn json_eq(a: &Value, b: &Value) -> bool {
    match (a, b) {
        (Value::Number(x), Value::Number(y)) => match (x.as_f64(), y.as_f64()) {
            (Some(x), Some(y)) => x == y,
            _ => false,
        },
        (Value::String(x), Value::String(y)) => x == y,
        (Value::Bool(x), Value::Bool(y)) => x == y,
        (Value::Null, Value::Null) => true,
        (Value::Array(x), Value::Array(y)) => x.len() == y.len() && x.iter().zip(y.iter()).all(|(p, q)| json_eq(p, q)),
        (Value::Object(x), Value::Object(y)) => {
            x.len() == y.len() && x.iter().all(|(k, v)| y.get(k).map_or(false, |w| json_eq(v, w)))
        }
        _ => false,
    }
}

pub fn json_lt(a: &Value, b: &Value) -> bool {
    match (a, b) {
        (Value::Number(x), Value::Number(y)) => match (x.as_f64(), y.as_f64()) {
            (Some(x), Some(y)) => x < y,
            _ => false,
        },
        (Value::String(x), Value::String(y)) => x.chars().lt(y.chars()),
        _ => false,
    }
}

/// `None` = empty nodelist / Nothing
pub fn compare(l: Option<&Value>, op: Op, r: Option<&Value>) -> bool {
    let eq = match (l, r) {
        (None, None) => true,
        (Some(a), Some(b)) => json_eq(a, b),
        _ => false,
    };
    let lt = |a: Option<&Value>, b: Option<&Value>| match (a, b) {
        (Some(a), Some(b)) => json_lt(a, b),
        _ => false,
    };
    match op {
        Op::Eq => eq,
        Op::Ne => !eq,
        Op::Lt => lt(l, r),
        Op::Gt => lt(r, l),
        Op::Le => lt(l, r) || eq,
        Op::Ge => lt(r, l) || eq,
    }
}
