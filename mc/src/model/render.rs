//! Rendering of model ASTs to query strings (the spelling recorded in `raw` is reproduced verbatim).

use super::ast::*;

pub fn escape_into(out: &mut String, val: &str, quote: char) {
    for c in val.chars() {
        match c {
            '\u{08}' => out.push_str("\\b"),
            '\u{09}' => out.push_str("\\t"),
            '\u{0a}' => out.push_str("\\n"),
            '\u{0c}' => out.push_str("\\f"),
            '\u{0d}' => out.push_str("\\r"),
            '\\' => out.push_str("\\\\"),
            c if c == quote => {
                out.push('\\');
                out.push(c);
            }
            c if (c as u32) < 0x20 => {
                out.push('\\');
                out.push('u');
                out.push_str(&format!("{:04x}", c as u32));
            }
            c => out.push(c),
        }
    }
}

/// single-quoted string literal, escaped exactly as RFC 9535 section 2.7 prescribes for normalized paths
pub fn quote_single(val: &str) -> String {
    let mut s = String::with_capacity(val.len() + 2);
    s.push('\'');
    escape_into(&mut s, val, '\'');
    s.push('\'');
    s
}

pub fn quote_double(val: &str) -> String {
    let mut s = String::with_capacity(val.len() + 2);
    s.push('"');
    escape_into(&mut s, val, '"');
    s.push('"');
    s
}

pub fn is_shorthand_name(s: &str) -> bool {
    let mut it = s.chars();
    let first = |c: char| c.is_ascii_alphabetic() || c == '_' || (c as u32) >= 0x80;
    match it.next() {
        Some(c) if first(c) => it.all(|c| first(c) || c.is_ascii_digit()),
        _ => false,
    }
}

pub fn sel(s: &Sel, out: &mut String) {
    match s {
        Sel::Name { raw, .. } => out.push_str(raw),
        Sel::Wild => out.push('*'),
        Sel::Index(i) => out.push_str(&i.to_string()),
        Sel::Slice(a, b, c) => {
            if let Some(a) = a {
                out.push_str(&a.to_string());
            }
            out.push(':');
            if let Some(b) = b {
                out.push_str(&b.to_string());
            }
            if let Some(c) = c {
                out.push(':');
                out.push_str(&c.to_string());
            }
        }
        Sel::Filter(e) => {
            out.push('?');
            expr(e, out);
        }
    }
}

pub fn seg(s: &Seg, out: &mut String) {
    if s.desc {
        out.push_str("..");
    }
    if s.sels.len() == 1 {
        if let Sel::Name { raw, .. } = &s.sels[0] {
            if !raw.starts_with(['\'', '"']) {
                if !s.desc {
                    out.push('.');
                }
                out.push_str(raw);
                return;
            }
        }
    }
    out.push('[');
    for (i, x) in s.sels.iter().enumerate() {
        if i > 0 {
            out.push(',');
        }
        sel(x, out);
    }
    out.push(']');
}

pub fn query_into(q: &Query, out: &mut String) {
    out.push(if q.abs { '$' } else { '@' });
    for s in &q.segs {
        seg(s, out);
    }
}

pub fn query(q: &Query) -> String {
    let mut s = String::new();
    query_into(q, &mut s);
    s
}

pub fn lit(l: &Lit, out: &mut String) {
    match l {
        Lit::Num { raw, .. } => out.push_str(raw),
        Lit::Str { raw, .. } => out.push_str(raw),
        Lit::Bool(b) => out.push_str(if *b { "true" } else { "false" }),
        Lit::Null => out.push_str("null"),
    }
}

pub fn fncall(f: &FnCall, out: &mut String) {
    out.push_str(&f.name);
    out.push('(');
    for (i, a) in f.args.iter().enumerate() {
        if i > 0 {
            out.push(',');
        }
        expr(a, out);
    }
    out.push(')');
}

pub fn cmpable(c: &Cmpable, out: &mut String) {
    match c {
        Cmpable::Lit(l) => lit(l, out),
        Cmpable::Query(q) => query_into(q, out),
        Cmpable::Func(f) => fncall(f, out),
    }
}

pub fn expr(e: &Expr, out: &mut String) {
    match e {
        Expr::Or(v) => {
            for (i, x) in v.iter().enumerate() {
                if i > 0 {
                    out.push_str("||");
                }
                expr(x, out);
            }
        }
        Expr::And(v) => {
            for (i, x) in v.iter().enumerate() {
                if i > 0 {
                    out.push_str("&&");
                }
                expr(x, out);
            }
        }
        Expr::Not(x) => {
            out.push('!');
            expr(x, out);
        }
        Expr::Paren(x) => {
            out.push('(');
            expr(x, out);
            out.push(')');
        }
        Expr::Test(q) => query_into(q, out),
        Expr::FuncTest(f) => fncall(f, out),
        Expr::Cmp(l, op, r) => {
            cmpable(l, out);
            out.push_str(op.text());
            cmpable(r, out);
        }
        Expr::BareLit(l) => lit(l, out),
    }
}

pub fn expr_string(e: &Expr) -> String {
    let mut s = String::new();
    expr(e, &mut s);
    s
}
