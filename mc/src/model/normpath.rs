//! RFC 9535 section 2.7: Normalized Paths.

use super::eval::{Loc, Step};

pub fn normpath(loc: &Loc) -> String {
    let mut s = String::from("$");
    for st in loc {
        match st {
            Step::Index(i) => {
                s.push('[');
                s.push_str(&i.to_string());
                s.push(']');
            }
            Step::Name(n) => {
                s.push_str("['");
                for c in n.chars() {
                    match c {
                        '\u{08}' => s.push_str("\\b"),
                        '\u{09}' => s.push_str("\\t"),
                        '\u{0a}' => s.push_str("\\n"),
                        '\u{0c}' => s.push_str("\\f"),
                        '\u{0d}' => s.push_str("\\r"),
                        '\'' => s.push_str("\\'"),
                        '\\' => s.push_str("\\\\"),
                        c if (c as u32) < 0x20 => {
                            s.push('\\');
                            s.push('u');
                            s.push_str(&format!("{:04x}", c as u32));
                        }
                        c => s.push(c),
                    }
                }
                s.push_str("']");
            }
        }
    }
    s
}
