//! Abstract syntax of RFC 9535 queries used by the reference model.
//!
//! The AST keeps, next to every decoded name / string literal, the raw source text it was spelled with.
//! The strict RFC semantics never looks at `raw`; only the known-finding deviation switches
//! (see `findings.rs`) do, to re-create the implementation's documented misbehaviour exactly.

#[derive(Clone, Debug, PartialEq)]
pub struct Query {
    /// true: starts at `$`, false: starts at `@`
    pub abs: bool,
    pub segs: Vec<Seg>,
}

#[derive(Clone, Debug, PartialEq)]
pub struct Seg {
    pub desc: bool,
    pub sels: Vec<Sel>,
    /// true when the segment was written in a form the `singular-query` ABNF rule can derive
    /// (`.name`, `['name']`, `[int]` without blanks inside the brackets). Set by the parser; the
    /// renderer produces that form for single name / index selectors, so builders set it the same way.
    pub singular_form: bool,
}

#[derive(Clone, Debug, PartialEq)]
pub enum Sel {
    Name { val: String, raw: String },
    Wild,
    Index(i64),
    Slice(Option<i64>, Option<i64>, Option<i64>),
    Filter(Expr),
}

#[derive(Clone, Debug, PartialEq)]
pub enum Expr {
    Or(Vec<Expr>),
    And(Vec<Expr>),
    /// `!` applied to a parenthesised expression or a test
    Not(Box<Expr>),
    Paren(Box<Expr>),
    /// existence test of a filter-query
    Test(Query),
    /// function call used as a test
    FuncTest(FnCall),
    Cmp(Cmpable, Op, Cmpable),
    /// only legal directly as a function argument; never produced at any other place
    BareLit(Lit),
}

#[derive(Clone, Copy, Debug, PartialEq, Eq, Hash)]
pub enum Op {
    Eq,
    Ne,
    Lt,
    Le,
    Gt,
    Ge,
}

impl Op {
    pub const ALL: [Op; 6] = [Op::Eq, Op::Ne, Op::Lt, Op::Le, Op::Gt, Op::Ge];
    pub fn text(self) -> &'static str {
        match self {
            Op::Eq => "==",
            Op::Ne => "!=",
            Op::Lt => "<",
            Op::Le => "<=",
            Op::Gt => ">",
            Op::Ge => ">=",
        }
    }
}

#[derive(Clone, Debug, PartialEq)]
pub enum Cmpable {
    Lit(Lit),
    Query(Query),
    Func(FnCall),
}

#[derive(Clone, Debug, PartialEq)]
pub struct FnCall {
    pub name: String,
    pub args: Vec<Expr>,
}

#[derive(Clone, Debug, PartialEq)]
pub enum Lit {
    /// `raw` is the literal's source text; `int_form` = no fraction / exponent
    Num { val: f64, raw: String, int_form: bool },
    Str { val: String, raw: String },
    Bool(bool),
    Null,
}

impl Query {
    pub fn root(segs: Vec<Seg>) -> Query {
        Query { abs: true, segs }
    }
    pub fn cur(segs: Vec<Seg>) -> Query {
        Query { abs: false, segs }
    }
    /// singular per RFC 2.3.5.1: only child segments with exactly one name or index selector
    pub fn is_singular(&self) -> bool {
        self.segs.iter().all(|s| {
            !s.desc && s.sels.len() == 1 && matches!(s.sels[0], Sel::Name { .. } | Sel::Index(_))
        })
    }
    /// derivable by the `singular-query` ABNF rule as written
    pub fn is_singular_form(&self) -> bool {
        self.is_singular() && self.segs.iter().all(|s| s.singular_form)
    }
}

impl Seg {
    pub fn child(sels: Vec<Sel>) -> Seg {
        let singular_form = sels.len() == 1 && matches!(sels[0], Sel::Name { .. } | Sel::Index(_));
        Seg { desc: false, sels, singular_form }
    }
    pub fn desc(sels: Vec<Sel>) -> Seg {
        Seg { desc: true, sels, singular_form: false }
    }
}

impl Sel {
    /// name selector spelled canonically: single-quoted with RFC escaping
    pub fn name(val: &str) -> Sel {
        Sel::Name { val: val.to_string(), raw: super::render::quote_single(val) }
    }
}

impl Lit {
    pub fn str(val: &str) -> Lit {
        Lit::Str { val: val.to_string(), raw: super::render::quote_single(val) }
    }
    pub fn int(i: i64) -> Lit {
        Lit::Num { val: i as f64, raw: i.to_string(), int_form: true }
    }
    pub fn num_raw(raw: &str) -> Lit {
        let int_form = !raw.contains(['.', 'e', 'E']);
        Lit::Num { val: raw.parse::<f64>().expect("number literal"), raw: raw.to_string(), int_form }
    }
}

pub const MAX_INT: i64 = 9007199254740991;
pub const MIN_INT: i64 = -9007199254740991;
