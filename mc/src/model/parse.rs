//! Hand-written recogniser for the RFC 9535 ABNF (section 2 and Appendix A) plus the validity rules
//! (I-JSON integer range of index / slice values, function well-typedness of section 2.4.3, singular
//! queries in comparisons). It is the oracle of C06/C07 and the front end of the reference evaluator.
//!
//! Blank space is consumed only where the ABNF writes `S`.

use super::ast::*;

#[derive(Clone, Debug, Default, PartialEq)]
pub struct ParseInfo {
    /// the string calls a function name RFC 9535 does not define (outside C06/C07 by the property text)
    pub unknown_fn: bool,
    /// an integer-form number literal outside the I-JSON range (C06 speaks of "integers within the I-JSON range",
    /// C07 of "out-of-range integers": either outcome is accepted for such a literal)
    pub big_literal: bool,
    /// number of function calls (any name)
    pub fn_calls: u32,
}

#[derive(Clone, Debug, PartialEq)]
pub struct PErr {
    pub pos: usize,
    pub msg: &'static str,
}

/// Deviation switches of the recogniser (known findings only; all false = strict RFC).
#[derive(Clone, Copy, Debug, Default, PartialEq, Eq)]
pub struct PDev {
    /// census item 16: only arity, "count takes neither a literal nor a logical expression" and
    /// "a function used as comparable must be length/count/value" are enforced, and arguments are
    /// recognised the way the PEG's ordered choice `literal | test | logical_expr` commits.
    pub no_function_typecheck: bool,
}

type R<T> = Result<T, PErr>;

#[derive(Clone, Copy, PartialEq, Eq, Debug)]
pub enum Ty {
    Value,
    Logical,
    Nodes,
    /// result of a function RFC 9535 does not define
    Unknown,
}

pub fn fn_sig(name: &str) -> Option<(&'static [Ty], Ty)> {
    match name {
        "length" => Some((&[Ty::Value], Ty::Value)),
        "count" => Some((&[Ty::Nodes], Ty::Value)),
        "value" => Some((&[Ty::Nodes], Ty::Value)),
        "match" => Some((&[Ty::Value, Ty::Value], Ty::Logical)),
        "search" => Some((&[Ty::Value, Ty::Value], Ty::Logical)),
        _ => None,
    }
}

struct P<'a> {
    s: &'a [char],
    i: usize,
    dev: PDev,
    info: ParseInfo,
    depth: u32,
}

const MAX_DEPTH: u32 = 3000;

pub fn rfc_parse(s: &str) -> R<(Query, ParseInfo)> {
    rfc_parse_dev(s, PDev::default())
}

pub fn rfc_parse_dev(s: &str, dev: PDev) -> R<(Query, ParseInfo)> {
    let chars: Vec<char> = s.chars().collect();
    let mut p = P { s: &chars, i: 0, dev, info: ParseInfo::default(), depth: 0 };
    if p.peek() != Some('$') {
        return Err(p.err("expected $"));
    }
    p.i += 1;
    let segs = p.segments()?;
    if p.i != p.s.len() {
        return Err(p.err("trailing characters"));
    }
    Ok((Query { abs: true, segs }, p.info))
}

/// convenience: strict verdict
pub fn is_valid(s: &str) -> bool {
    rfc_parse(s).is_ok()
}

fn is_blank(c: char) -> bool {
    matches!(c, ' ' | '\t' | '\n' | '\r')
}
fn name_first(c: char) -> bool {
    c.is_ascii_alphabetic() || c == '_' || (c as u32) >= 0x80
}
fn name_char(c: char) -> bool {
    name_first(c) || c.is_ascii_digit()
}

impl<'a> P<'a> {
    fn err(&self, msg: &'static str) -> PErr {
        PErr { pos: self.i, msg }
    }
    fn peek(&self) -> Option<char> {
        self.s.get(self.i).copied()
    }
    fn peek_at(&self, k: usize) -> Option<char> {
        self.s.get(self.i + k).copied()
    }
    fn starts(&self, t: &str) -> bool {
        let mut k = self.i;
        for c in t.chars() {
            if self.s.get(k) != Some(&c) {
                return false;
            }
            k += 1;
        }
        true
    }
    fn eat(&mut self, c: char) -> bool {
        if self.peek() == Some(c) {
            self.i += 1;
            true
        } else {
            false
        }
    }
    fn expect(&mut self, c: char, msg: &'static str) -> R<()> {
        if self.eat(c) {
            Ok(())
        } else {
            Err(self.err(msg))
        }
    }
    fn skip_s(&mut self) {
        while let Some(c) = self.peek() {
            if is_blank(c) {
                self.i += 1;
            } else {
                break;
            }
        }
    }
    fn enter(&mut self) -> R<()> {
        self.depth += 1;
        if self.depth > MAX_DEPTH {
            Err(self.err("model nesting limit"))
        } else {
            Ok(())
        }
    }

    // segments = *(S segment)
    fn segments(&mut self) -> R<Vec<Seg>> {
        let mut out = vec![];
        loop {
            let save = self.i;
            self.skip_s();
            match self.peek() {
                Some('.') | Some('[') => out.push(self.segment()?),
                _ => {
                    self.i = save;
                    return Ok(out);
                }
            }
        }
    }

    fn segment(&mut self) -> R<Seg> {
        if self.starts("..") {
            self.i += 2;
            match self.peek() {
                Some('[') => {
                    let (sels, _) = self.bracketed()?;
                    Ok(Seg { desc: true, sels, singular_form: false })
                }
                Some('*') => {
                    self.i += 1;
                    Ok(Seg { desc: true, sels: vec![Sel::Wild], singular_form: false })
                }
                Some(c) if name_first(c) => {
                    let n = self.shorthand();
                    Ok(Seg { desc: true, sels: vec![Sel::Name { val: n.clone(), raw: n }], singular_form: false })
                }
                _ => Err(self.err("bad descendant segment")),
            }
        } else if self.eat('.') {
            match self.peek() {
                Some('*') => {
                    self.i += 1;
                    Ok(Seg { desc: false, sels: vec![Sel::Wild], singular_form: false })
                }
                Some(c) if name_first(c) => {
                    let n = self.shorthand();
                    Ok(Seg { desc: false, sels: vec![Sel::Name { val: n.clone(), raw: n }], singular_form: true })
                }
                _ => Err(self.err("bad child segment")),
            }
        } else {
            let (sels, tight) = self.bracketed()?;
            let singular_form =
                tight && sels.len() == 1 && matches!(sels[0], Sel::Name { .. } | Sel::Index(_));
            Ok(Seg { desc: false, sels, singular_form })
        }
    }

    fn shorthand(&mut self) -> String {
        let st = self.i;
        while let Some(c) = self.peek() {
            if name_char(c) {
                self.i += 1;
            } else {
                break;
            }
        }
        self.s[st..self.i].iter().collect()
    }

    // bracketed-selection = "[" S selector *(S "," S selector) S "]"
    // second result: no blank was consumed inside the brackets
    fn bracketed(&mut self) -> R<(Vec<Sel>, bool)> {
        self.enter()?;
        self.expect('[', "expected [")?;
        let mut tight = true;
        let b = self.i;
        self.skip_s();
        tight &= self.i == b;
        let mut sels = vec![self.selector()?];
        loop {
            let b = self.i;
            self.skip_s();
            tight &= self.i == b;
            if self.eat(',') {
                self.skip_s();
                sels.push(self.selector()?);
            } else if self.eat(']') {
                break;
            } else {
                return Err(self.err("expected , or ]"));
            }
        }
        self.depth -= 1;
        Ok((sels, tight))
    }

    fn selector(&mut self) -> R<Sel> {
        match self.peek() {
            Some('\'') | Some('"') => {
                let (val, raw) = self.string_lit()?;
                Ok(Sel::Name { val, raw })
            }
            Some('*') => {
                self.i += 1;
                Ok(Sel::Wild)
            }
            Some('?') => {
                self.i += 1;
                self.skip_s();
                Ok(Sel::Filter(self.or_expr()?))
            }
            _ => {
                // slice-selector = [start S] ":" S [end S] [":" [S step]]   /  index-selector = int
                let start = self.opt_int()?;
                let save = self.i;
                if start.is_some() {
                    self.skip_s();
                }
                if !self.eat(':') {
                    self.i = save;
                    return match start {
                        Some(i) => Ok(Sel::Index(i)),
                        None => Err(self.err("expected selector")),
                    };
                }
                self.skip_s();
                let end = self.opt_int()?;
                let save = self.i;
                if end.is_some() {
                    self.skip_s();
                }
                let mut step = None;
                if self.eat(':') {
                    let save2 = self.i;
                    self.skip_s();
                    step = self.opt_int()?;
                    if step.is_none() {
                        self.i = save2;
                    }
                } else {
                    self.i = save;
                }
                Ok(Sel::Slice(start, end, step))
            }
        }
    }

    /// int = "0" / (["-"] DIGIT1 *DIGIT), range-checked; None when no int starts here
    fn opt_int(&mut self) -> R<Option<i64>> {
        let st = self.i;
        let mut k = self.i;
        let neg = self.s.get(k) == Some(&'-');
        if neg {
            k += 1;
        }
        match self.s.get(k) {
            Some('0') => {
                if neg {
                    // "-0" is not an int
                    return Err(self.err("-0 is not an int"));
                }
                self.i = k + 1;
                Ok(Some(0))
            }
            Some(c) if c.is_ascii_digit() => {
                let ds = k;
                while self.s.get(k).map_or(false, |c| c.is_ascii_digit()) {
                    k += 1;
                }
                let n = k - ds;
                self.i = k;
                if n > 16 {
                    self.i = st;
                    return Err(self.err("integer out of I-JSON range"));
                }
                let mut v: i64 = 0;
                for c in &self.s[ds..k] {
                    v = v * 10 + (*c as i64 - '0' as i64);
                }
                if v > MAX_INT {
                    self.i = st;
                    return Err(self.err("integer out of I-JSON range"));
                }
                Ok(Some(if neg { -v } else { v }))
            }
            _ => {
                if neg {
                    Err(self.err("dangling -"))
                } else {
                    Ok(None)
                }
            }
        }
    }

    fn hex4(&mut self) -> R<u32> {
        let mut v = 0u32;
        for _ in 0..4 {
            match self.peek().and_then(|c| c.to_digit(16)) {
                Some(d) => {
                    v = v * 16 + d;
                    self.i += 1;
                }
                None => return Err(self.err("bad hex digit")),
            }
        }
        Ok(v)
    }

    /// string-literal; returns (decoded value, raw source text including the quotes)
    fn string_lit(&mut self) -> R<(String, String)> {
        let st = self.i;
        let q = self.peek().ok_or_else(|| self.err("expected string"))?;
        self.i += 1;
        let mut val = String::new();
        loop {
            let c = self.peek().ok_or_else(|| self.err("unterminated string"))?;
            self.i += 1;
            if c == q {
                break;
            }
            if c == '\\' {
                let e = self.peek().ok_or_else(|| self.err("unterminated escape"))?;
                self.i += 1;
                match e {
                    'b' => val.push('\u{08}'),
                    'f' => val.push('\u{0c}'),
                    'n' => val.push('\n'),
                    'r' => val.push('\r'),
                    't' => val.push('\t'),
                    '/' => val.push('/'),
                    '\\' => val.push('\\'),
                    'u' => {
                        let h = self.hex4()?;
                        if (0xD800..0xDC00).contains(&h) {
                            if !(self.eat('\\') && self.eat('u')) {
                                return Err(self.err("lone high surrogate"));
                            }
                            let l = self.hex4()?;
                            if !(0xDC00..0xE000).contains(&l) {
                                return Err(self.err("bad low surrogate"));
                            }
                            let cp = 0x10000 + ((h - 0xD800) << 10) + (l - 0xDC00);
                            val.push(char::from_u32(cp).ok_or_else(|| self.err("bad code point"))?);
                        } else if (0xDC00..0xE000).contains(&h) {
                            return Err(self.err("lone low surrogate"));
                        } else {
                            val.push(char::from_u32(h).ok_or_else(|| self.err("bad code point"))?);
                        }
                    }
                    e if e == q => val.push(q),
                    _ => return Err(self.err("bad escape")),
                }
            } else if (c as u32) < 0x20 {
                return Err(self.err("unescaped control character"));
            } else {
                // the other quote character and everything >= 0x20 except backslash are literal
                val.push(c);
            }
        }
        Ok((val, self.s[st..self.i].iter().collect()))
    }

    /// number = (int / "-0") [frac] [exp]
    fn number(&mut self) -> R<Lit> {
        let st = self.i;
        let mut k = self.i;
        if self.s.get(k) == Some(&'-') {
            k += 1;
        }
        match self.s.get(k) {
            Some('0') => k += 1,
            Some(c) if c.is_ascii_digit() => {
                while self.s.get(k).map_or(false, |c| c.is_ascii_digit()) {
                    k += 1;
                }
            }
            _ => return Err(self.err("bad number")),
        }
        let mut int_form = true;
        if self.s.get(k) == Some(&'.') && self.s.get(k + 1).map_or(false, |c| c.is_ascii_digit()) {
            k += 1;
            while self.s.get(k).map_or(false, |c| c.is_ascii_digit()) {
                k += 1;
            }
            int_form = false;
        }
        if matches!(self.s.get(k), Some('e') | Some('E')) {
            let mut j = k + 1;
            if matches!(self.s.get(j), Some('+') | Some('-')) {
                j += 1;
            }
            if self.s.get(j).map_or(false, |c| c.is_ascii_digit()) {
                while self.s.get(j).map_or(false, |c| c.is_ascii_digit()) {
                    j += 1;
                }
                k = j;
                int_form = false;
            }
        }
        self.i = k;
        let raw: String = self.s[st..k].iter().collect();
        let val: f64 = raw.parse().map_err(|_| self.err("bad number"))?;
        // a fraction / exponent literal that overflows f64 is still a well-formed number of the grammar
        if int_form {
            let digits = raw.trim_start_matches('-');
            if digits.len() > 16 || digits.parse::<i64>().map_or(true, |v| v > MAX_INT) {
                self.info.big_literal = true;
            }
        }
        Ok(Lit::Num { val, raw, int_form })
    }

    fn ident(&mut self) -> String {
        let st = self.i;
        if self.peek().map_or(false, |c| c.is_ascii_lowercase()) {
            self.i += 1;
            while self.peek().map_or(false, |c| c.is_ascii_lowercase() || c == '_' || c.is_ascii_digit()) {
                self.i += 1;
            }
        }
        self.s[st..self.i].iter().collect()
    }

    fn or_expr(&mut self) -> R<Expr> {
        self.enter()?;
        let mut v = vec![self.and_expr()?];
        loop {
            let save = self.i;
            self.skip_s();
            if self.starts("||") {
                self.i += 2;
                self.skip_s();
                v.push(self.and_expr()?);
            } else {
                self.i = save;
                break;
            }
        }
        self.depth -= 1;
        Ok(if v.len() == 1 { v.pop().unwrap() } else { Expr::Or(v) })
    }

    fn and_expr(&mut self) -> R<Expr> {
        let mut v = vec![self.basic_expr()?];
        loop {
            let save = self.i;
            self.skip_s();
            if self.starts("&&") {
                self.i += 2;
                self.skip_s();
                v.push(self.basic_expr()?);
            } else {
                self.i = save;
                break;
            }
        }
        Ok(if v.len() == 1 { v.pop().unwrap() } else { Expr::And(v) })
    }

    fn paren(&mut self) -> R<Expr> {
        self.expect('(', "expected (")?;
        self.skip_s();
        let e = self.or_expr()?;
        self.skip_s();
        self.expect(')', "expected )")?;
        Ok(Expr::Paren(Box::new(e)))
    }

    fn basic_expr(&mut self) -> R<Expr> {
        self.enter()?;
        let r = self.basic_expr_inner();
        self.depth -= 1;
        r
    }

    fn basic_expr_inner(&mut self) -> R<Expr> {
        if self.eat('!') {
            self.skip_s();
            if self.peek() == Some('(') {
                return Ok(Expr::Not(Box::new(self.paren()?)));
            }
            let o = self.operand()?;
            return Ok(Expr::Not(Box::new(self.as_test(o)?)));
        }
        if self.peek() == Some('(') {
            return self.paren();
        }
        let l = self.operand()?;
        let save = self.i;
        self.skip_s();
        if let Some(op) = self.cmp_op() {
            self.skip_s();
            let r = self.operand()?;
            let l = self.as_comparable(l)?;
            let r = self.as_comparable(r)?;
            return Ok(Expr::Cmp(l, op, r));
        }
        self.i = save;
        self.as_test(l)
    }

    fn cmp_op(&mut self) -> Option<Op> {
        for (t, op) in [("==", Op::Eq), ("!=", Op::Ne), ("<=", Op::Le), (">=", Op::Ge), ("<", Op::Lt), (">", Op::Gt)] {
            if self.starts(t) {
                self.i += t.len();
                return Some(op);
            }
        }
        None
    }

    /// literal / filter-query / function-expr
    fn operand(&mut self) -> R<Operand> {
        match self.peek() {
            Some('@') | Some('$') => {
                let abs = self.peek() == Some('$');
                self.i += 1;
                let segs = self.segments()?;
                Ok(Operand::Query(Query { abs, segs }))
            }
            Some('\'') | Some('"') => {
                let (val, raw) = self.string_lit()?;
                Ok(Operand::Lit(Lit::Str { val, raw }))
            }
            Some(c) if c == '-' || c.is_ascii_digit() => Ok(Operand::Lit(self.number()?)),
            Some(c) if c.is_ascii_lowercase() => {
                let save = self.i;
                let id = self.ident();
                if self.peek() == Some('(') {
                    return Ok(Operand::Func(self.fn_call(id)?));
                }
                // keywords: longest-match identifiers that are not calls must be exactly a keyword,
                // but the ABNF has no identifier token: "truex" is `true` followed by garbage.
                self.i = save;
                for (kw, l) in [("true", Lit::Bool(true)), ("false", Lit::Bool(false)), ("null", Lit::Null)] {
                    if self.starts(kw) {
                        self.i += kw.len();
                        return Ok(Operand::Lit(l));
                    }
                }
                Err(self.err("expected operand"))
            }
            _ => Err(self.err("expected operand")),
        }
    }

    fn fn_call(&mut self, name: String) -> R<FnCall> {
        self.enter()?;
        self.info.fn_calls += 1;
        self.expect('(', "expected (")?;
        self.skip_s();
        let mut args = vec![];
        if !self.eat(')') {
            loop {
                args.push(self.fn_arg()?);
                self.skip_s();
                if self.eat(',') {
                    self.skip_s();
                } else if self.eat(')') {
                    break;
                } else {
                    return Err(self.err("expected , or )"));
                }
            }
        }
        self.depth -= 1;
        let f = FnCall { name, args };
        self.check_call(&f)?;
        Ok(f)
    }

    fn fn_arg(&mut self) -> R<Expr> {
        if self.dev.no_function_typecheck {
            // the PEG commits: literal | test | logical_expr (ordered, no backtracking into the choice)
            return match self.peek() {
                Some('!') | Some('(') => self.or_expr(),
                _ => {
                    let o = self.operand()?;
                    Ok(match o {
                        Operand::Lit(l) => Expr::BareLit(l),
                        Operand::Query(q) => Expr::Test(q),
                        Operand::Func(f) => Expr::FuncTest(f),
                    })
                }
            };
        }
        // a literal, a filter-query or a function-expr is an argument of that kind only when it is the
        // whole argument; anything else is a logical-expr
        let save = self.i;
        let calls = self.info.fn_calls;
        if let Ok(o) = self.operand() {
            let after = self.i;
            self.skip_s();
            if matches!(self.peek(), Some(',') | Some(')')) {
                self.i = after;
                return Ok(match o {
                    Operand::Lit(l) => Expr::BareLit(l),
                    Operand::Query(q) => Expr::Test(q),
                    Operand::Func(f) => Expr::FuncTest(f),
                });
            }
        }
        self.i = save;
        self.info.fn_calls = calls;
        self.or_expr()
    }

    fn arg_fits(&self, a: &Expr, p: Ty) -> bool {
        match a {
            Expr::BareLit(_) => p == Ty::Value,
            Expr::Test(q) => match p {
                Ty::Nodes | Ty::Logical => true,
                Ty::Value => q.is_singular(),
                Ty::Unknown => true,
            },
            Expr::FuncTest(f) => {
                let r = fn_sig(&f.name).map_or(Ty::Unknown, |s| s.1);
                match (r, p) {
                    (Ty::Unknown, _) | (_, Ty::Unknown) => true,
                    (Ty::Value, Ty::Value) => true,
                    (Ty::Logical, Ty::Logical) | (Ty::Nodes, Ty::Logical) => true,
                    (Ty::Nodes, Ty::Nodes) => true,
                    _ => false,
                }
            }
            _ => p == Ty::Logical || p == Ty::Unknown,
        }
    }

    fn check_call(&mut self, f: &FnCall) -> R<()> {
        let sig = match fn_sig(&f.name) {
            Some(s) => s,
            None => {
                self.info.unknown_fn = true;
                return Ok(());
            }
        };
        if sig.0.len() != f.args.len() {
            return Err(self.err("wrong number of arguments"));
        }
        if self.dev.no_function_typecheck {
            if f.name == "count" {
                let a = &f.args[0];
                if !matches!(a, Expr::Test(_) | Expr::FuncTest(_)) {
                    return Err(self.err("count needs a node argument"));
                }
            }
            return Ok(());
        }
        for (a, p) in f.args.iter().zip(sig.0.iter()) {
            if !self.arg_fits(a, *p) {
                return Err(self.err("ill-typed function argument"));
            }
        }
        Ok(())
    }

    fn as_test(&mut self, o: Operand) -> R<Expr> {
        match o {
            Operand::Query(q) => Ok(Expr::Test(q)),
            Operand::Func(f) => {
                if !self.dev.no_function_typecheck {
                    if let Some((_, r)) = fn_sig(&f.name) {
                        if r == Ty::Value {
                            return Err(self.err("ValueType function used as test"));
                        }
                    }
                }
                Ok(Expr::FuncTest(f))
            }
            Operand::Lit(_) => Err(self.err("literal is not a test expression")),
        }
    }

    fn as_comparable(&mut self, o: Operand) -> R<Cmpable> {
        match o {
            Operand::Lit(l) => Ok(Cmpable::Lit(l)),
            Operand::Query(q) => {
                if q.is_singular_form() {
                    Ok(Cmpable::Query(q))
                } else {
                    Err(self.err("non-singular query in comparison"))
                }
            }
            Operand::Func(f) => {
                match fn_sig(&f.name) {
                    Some((_, Ty::Value)) => {}
                    Some(_) => return Err(self.err("function result is not comparable")),
                    // the implementation never treats an extension function as comparable; RFC-wise the
                    // string is outside the property (unknown function) either way
                    None => {}
                }
                Ok(Cmpable::Func(f))
            }
        }
    }
}

enum Operand {
    Lit(Lit),
    Query(Query),
    Func(FnCall),
}
