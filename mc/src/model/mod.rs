pub mod ast;
pub mod eval;
pub mod normpath;
pub mod parse;
pub mod regex_ref;
pub mod render;
