//! Adapter around the code under test: every call goes through the crate's public API and is wrapped in
//! `catch_unwind`; returned references are identified by address against a map of the document's nodes.

use crate::model::eval::{Loc, Step};
use jsonpath_rust::parser::model::JpQuery;
use jsonpath_rust::parser::parse_json_path;
use jsonpath_rust::query::state::{Data, State};
use jsonpath_rust::query::{js_path_process, Query};
use jsonpath_rust::JsonPath;
use serde_json::Value;
use std::collections::HashMap;
use std::panic::{catch_unwind, AssertUnwindSafe};

pub struct AddrMap {
    pub map: HashMap<usize, u32>,
    pub locs: Vec<Loc>,
}

impl AddrMap {
    pub fn new(doc: &Value) -> AddrMap {
        let mut m = AddrMap { map: HashMap::new(), locs: vec![] };
        let mut loc = vec![];
        m.walk(doc, &mut loc);
        m
    }
    fn walk(&mut self, v: &Value, loc: &mut Loc) {
        let id = self.locs.len() as u32;
        self.locs.push(loc.clone());
        let prev = self.map.insert(v as *const Value as usize, id);
        assert!(prev.is_none(), "two nodes share an address");
        match v {
            Value::Array(a) => {
                for (i, x) in a.iter().enumerate() {
                    loc.push(Step::Index(i));
                    self.walk(x, loc);
                    loc.pop();
                }
            }
            Value::Object(m) => {
                for (k, x) in m.iter() {
                    loc.push(Step::Name(k.clone()));
                    self.walk(x, loc);
                    loc.pop();
                }
            }
            _ => {}
        }
    }
    /// node id of a returned reference; None = not a node of the caller's document
    pub fn id_of(&self, v: &Value) -> Option<u32> {
        self.map.get(&(v as *const Value as usize)).copied()
    }
    pub fn loc(&self, id: u32) -> &Loc {
        &self.locs[id as usize]
    }
}

pub const FABRICATED: u32 = u32::MAX;

#[derive(Clone, Debug, PartialEq, Eq, Hash)]
pub enum Tag {
    Ref,
    Refs,
    Nothing,
    Value,
}

#[derive(Clone, Debug, PartialEq)]
pub enum ImplOut {
    /// (node id or FABRICATED, reported path)
    Ok(Vec<(u32, String)>),
    Err(String),
    Panic(String),
}

impl ImplOut {
    pub fn short(&self) -> String {
        match self {
            ImplOut::Ok(v) => format!("Ok({} nodes)", v.len()),
            ImplOut::Err(e) => format!("Err({})", e.chars().take(120).collect::<String>()),
            ImplOut::Panic(e) => format!("PANIC({})", e.chars().take(200).collect::<String>()),
        }
    }
}

pub fn panic_text(p: Box<dyn std::any::Any + Send>) -> String {
    if let Some(s) = p.downcast_ref::<&str>() {
        s.to_string()
    } else if let Some(s) = p.downcast_ref::<String>() {
        s.clone()
    } else {
        "non-string panic payload".to_string()
    }
}

pub fn quiet_panics() {
    // panics of the code under test are expected observations (caught per case); a panic on a harness thread is a
    // machinery failure and must stay visible
    std::panic::set_hook(Box::new(|info| {
        let harness = info.location().map_or(false, |l| l.file().starts_with("src/") && !l.file().contains("/repo/"));
        if harness || std::env::var("VERIF_LOUD").is_ok() {
            eprintln!("MACHINERY panic: {}", info);
        }
    }));
}

pub fn parse(q: &str) -> Result<Result<JpQuery, String>, String> {
    catch_unwind(AssertUnwindSafe(|| parse_json_path(q).map_err(|e| e.to_string()))).map_err(panic_text)
}

pub fn parse_ok(q: &str) -> Option<bool> {
    match parse(q) {
        Ok(Ok(_)) => Some(true),
        Ok(Err(_)) => Some(false),
        Err(_) => None,
    }
}

pub fn run_parsed(jq: &JpQuery, doc: &Value, am: &AddrMap) -> ImplOut {
    let r = catch_unwind(AssertUnwindSafe(|| {
        js_path_process(jq, doc).map(|v| {
            v.into_iter()
                .map(|r| {
                    let path = r.clone().path();
                    let val = r.val();
                    (am.id_of(val).unwrap_or(FABRICATED), path)
                })
                .collect::<Vec<_>>()
        })
    }));
    match r {
        Ok(Ok(v)) => ImplOut::Ok(v),
        Ok(Err(e)) => ImplOut::Err(e.to_string()),
        Err(p) => ImplOut::Panic(panic_text(p)),
    }
}

pub fn state_tag(jq: &JpQuery, doc: &Value) -> Result<Tag, String> {
    catch_unwind(AssertUnwindSafe(|| {
        let st = jq.process(State::root(doc));
        match st.data {
            Data::Ref(..) => Tag::Ref,
            Data::Refs(..) => Tag::Refs,
            Data::Nothing => Tag::Nothing,
            Data::Value(..) => Tag::Value,
        }
    }))
    .map_err(panic_text)
}

/// `query_with_path`
pub fn run_with_path(q: &str, doc: &Value, am: &AddrMap) -> ImplOut {
    let r = catch_unwind(AssertUnwindSafe(|| {
        doc.query_with_path(q).map(|v| {
            v.into_iter()
                .map(|r| {
                    let path = r.clone().path();
                    (am.id_of(r.val()).unwrap_or(FABRICATED), path)
                })
                .collect::<Vec<_>>()
        })
    }));
    match r {
        Ok(Ok(v)) => ImplOut::Ok(v),
        Ok(Err(e)) => ImplOut::Err(e.to_string()),
        Err(p) => ImplOut::Panic(panic_text(p)),
    }
}

/// `query` (values only): node ids
pub fn run_query(q: &str, doc: &Value, am: &AddrMap) -> Result<Result<Vec<u32>, String>, String> {
    catch_unwind(AssertUnwindSafe(|| {
        doc.query(q)
            .map(|v| v.into_iter().map(|r| am.id_of(r).unwrap_or(FABRICATED)).collect::<Vec<_>>())
            .map_err(|e| e.to_string())
    }))
    .map_err(panic_text)
}

/// `query_only_path`
pub fn run_only_path(q: &str, doc: &Value) -> Result<Result<Vec<String>, String>, String> {
    catch_unwind(AssertUnwindSafe(|| doc.query_only_path(q).map_err(|e| e.to_string()))).map_err(panic_text)
}

/// serde_json::from_str without the recursion limit (documents assembled in code can be deeper than 128 levels)
pub fn json_unbounded(text: &str) -> Result<Value, serde_json::Error> {
    let mut de = serde_json::Deserializer::from_str(text);
    de.disable_recursion_limit();
    let v: Value = serde::de::Deserialize::deserialize(&mut de)?;
    de.end()?;
    Ok(v)
}
