//! C12 side condition: the types a caller shares between threads are Send + Sync.
//! This crate only has to compile.

use jsonpath_rust::parser::errors::JsonPathError;
use jsonpath_rust::parser::model::JpQuery;
use jsonpath_rust::query::QueryRef;
use serde_json::Value;

fn send_sync<T: Send + Sync>() {}

pub fn check() {
    send_sync::<JpQuery>();
    send_sync::<JsonPathError>();
    send_sync::<QueryRef<'static, Value>>();
}
